//go:build verif

package codec

import "math/bits"

// Engine self-check (registered under C09, whose claims rest on the engine's model of Go run-time panics):
// corner cases of Go's semantics — slice bounds, indexing, division, shifts, conversions, nil maps, append
// aliasing, type assertions — each driven by symbolic operands over a small range, the expected Go
// behaviour stated as an assertion. The assertion is decided by the solver on the engine's encoding AND
// evaluated natively on a witness per case (Reach label per case; Observe values must agree), so a
// disagreement between the encoding and the real Go run time surfaces as ENGINE-MISMATCH (exit 2).
// Added after a seeded change (C09-5) was missed because a slice high bound of -1 was read as "absent".

type zzscIface interface{ M() int }
type zzscA struct{ x int }
type zzscB struct{ y int }

func (a zzscA) M() int { return a.x }
func (b zzscB) M() int { return b.y }

func zzscTry(f func() uint64) (v uint64, panicked bool) {
	defer func() {
		if r := recover(); r != nil {
			panicked = true
		}
	}()
	return f(), false
}

//zz:opt loop=300 panicok=1 require=slice-high,slice-low-high,slice-max,index-slice,index-array,index-string,div,mod,mindiv,shl,shr,shift-neg,conv,nilmap,append-alias,copy,assert,makeslice,string-slice,wrap,table256
func zzH_C09_engine_selfcheck(t *zzT) {
	c := t.Choice("case", 21)
	n32 := t.I32("n")
	t.Assume(n32 >= -2 && n32 <= 5)
	n := int(n32)
	m32 := t.I32("m")
	t.Assume(m32 >= -2 && m32 <= 5)
	m := int(m32)
	buf := make([]byte, 2, 4)
	buf[0], buf[1] = t.U8("b0"), t.U8("b1")
	arr := [3]uint8{7, 8, 9}
	str := "abc"
	switch c {
	case 0: // s[:n]: panics iff n < 0 or n > cap
		v, p := zzscTry(func() uint64 { return uint64(len(buf[:n])) })
		t.Assert(p == (n < 0 || n > 4) && (p || v == uint64(n)), "slice [:n] panics iff n < 0 or n > cap, else has length n")
		t.ObserveBool("p", p)
		t.Reach("slice-high")
	case 1: // s[n:m]
		v, p := zzscTry(func() uint64 { return uint64(len(buf[n:m])) })
		t.Assert(p == (n < 0 || m < 0 || m > 4 || n > m) && (p || v == uint64(m-n)), "slice [n:m] panics iff bounds are negative, inverted or beyond cap")
		t.ObserveBool("p", p)
		t.Reach("slice-low-high")
	case 2: // s[0:n:m]
		v, p := zzscTry(func() uint64 { return uint64(cap(buf[0:n:m])) })
		t.Assert(p == (n < 0 || m < 0 || m > 4 || n > m) && (p || v == uint64(m)), "slice [0:n:m] panics iff bounds are negative, inverted or beyond cap, else cap m")
		t.ObserveBool("p", p)
		t.Reach("slice-max")
	case 3:
		v, p := zzscTry(func() uint64 { return uint64(buf[n]) })
		t.Assert(p == (n < 0 || n >= 2) && (p || (n == 0 && v == uint64(buf[0])) || (n == 1 && v == uint64(buf[1]))), "slice index panics iff outside [0,len)")
		t.ObserveBool("p", p)
		t.Reach("index-slice")
	case 4:
		v, p := zzscTry(func() uint64 { return uint64(arr[n]) })
		t.Assert(p == (n < 0 || n >= 3) && (p || v == uint64(7+n)), "array index panics iff outside [0,3)")
		t.ObserveBool("p", p)
		t.Reach("index-array")
	case 5:
		v, p := zzscTry(func() uint64 { return uint64(str[n]) })
		t.Assert(p == (n < 0 || n >= 3) && (p || v == uint64('a'+n)), "string index panics iff outside [0,len)")
		t.ObserveBool("p", p)
		t.Reach("index-string")
	case 6:
		v, p := zzscTry(func() uint64 { return uint64(int64(m) / int64(n)) })
		t.Assert(p == (n == 0), "integer division panics iff the divisor is 0")
		if !p && n > 0 && m >= 0 {
			t.Assert(v == uint64(m/n), "quotient")
		}
		if !p && n < 0 && m > 0 {
			t.Assert(int64(v) == -int64(m/(-n)), "division truncates toward zero")
		}
		t.ObserveBool("p", p)
		t.ObserveU64("v", v)
		t.Reach("div")
	case 7:
		v, p := zzscTry(func() uint64 { return uint64(int64(m) % int64(n)) })
		t.Assert(p == (n == 0), "integer remainder panics iff the divisor is 0")
		if !p && m < 0 {
			t.Assert(int64(v) <= 0, "remainder has the sign of the dividend")
		}
		t.ObserveBool("p", p)
		t.ObserveU64("v", v)
		t.Reach("mod")
	case 8:
		x := t.I64("x")
		t.Assume(x == -9223372036854775808 || x == 7)
		d := int64(n)
		t.Assume(d == -1)
		v, p := zzscTry(func() uint64 { return uint64(x / d) })
		t.Assert(!p, "MinInt64 / -1 does not panic")
		t.Assert((x == 7 && int64(v) == -7) || (x != 7 && int64(v) == x), "MinInt64 / -1 wraps to MinInt64")
		t.ObserveU64("v", v)
		t.Reach("mindiv")
	case 9:
		s := uint(t.U8("s"))
		x := t.U32("x")
		v := x << s
		t.Assert(s < 32 || v == 0, "left shift by >= width gives 0")
		t.Assert(s != 31 || v == (x&1)<<31, "left shift by 31 keeps the lowest bit")
		t.ObserveU64("v", uint64(v))
		t.Reach("shl")
	case 10:
		s := uint(t.U8("s"))
		x := t.I32("x")
		v := x >> s
		t.Assert(s < 32 || (x >= 0 && v == 0) || (x < 0 && v == -1), "arithmetic right shift by >= width gives 0 or -1")
		t.ObserveU64("v", uint64(uint32(v)))
		t.Reach("shr")
	case 11:
		x := t.U32("x")
		v, p := zzscTry(func() uint64 { return uint64(x << n) })
		t.Assert(p == (n < 0), "shift by a negative signed count panics")
		t.Assert(p || v == uint64(x<<uint(n)), "shift by a signed count = shift by its unsigned value")
		t.ObserveBool("p", p)
		t.Reach("shift-neg")
	case 12:
		x := t.U64("x")
		i8 := int8(x)
		t.Assert(int64(i8) == int64(int8(uint8(x&0xff))) && (x&0x80 == 0) == (i8 >= 0), "uint64 -> int8 keeps the low byte, sign from bit 7")
		u := uint64(int64(int32(uint32(x))))
		t.Assert((x&0x80000000 == 0 && u == x&0xffffffff) || (x&0x80000000 != 0 && u == x&0xffffffff|0xffffffff00000000), "int32 -> int64 sign-extends")
		t.Assert((int64(x) < 0) == (x >= 1<<63), "signed view of a uint64")
		t.ObserveU64("u", u)
		t.Reach("conv")
	case 13:
		var mp map[uint8]uint8
		if n > 0 {
			mp = map[uint8]uint8{}
		}
		_, ok := mp[3]
		_, p := zzscTry(func() uint64 { mp[3] = 1; return 0 })
		t.Assert(!ok && p == (n <= 0), "nil map: read is fine, write panics")
		t.ObserveBool("p", p)
		t.Reach("nilmap")
	case 14:
		a := append(buf[:1], 0xee)  // in place: overwrites buf[1]
		b := append(buf[:2:2], 0xdd) // capacity exhausted: fresh array
		b[0] = 0xcc
		t.Assert(buf[1] == 0xee && len(a) == 2 && &a[0] == &buf[0], "append within capacity writes in place")
		t.Assert(buf[0] != 0xcc || t.U8("b0") == 0xcc, "append beyond capacity copies")
		t.Assert(len(b) == 3 && b[2] == 0xdd && b[1] == 0xee, "appended copy carries the old elements")
		t.ObserveU64("buf1", uint64(buf[1]))
		t.Reach("append-alias")
	case 15:
		s := []byte{1, 2, 3, 4}
		k := copy(s[1:], s[:3]) // overlapping, forward
		t.Assert(k == 3 && s[0] == 1 && s[1] == 1 && s[2] == 2 && s[3] == 3, "copy handles overlap like memmove")
		k2 := copy(s[:n2(n)], []byte{9, 9, 9, 9, 9, 9})
		t.Assert(k2 == n2(n), "copy copies min(len(dst), len(src))")
		t.ObserveU64("k2", uint64(k2))
		t.Reach("copy")
	case 16:
		var i zzscIface = zzscA{x: 5}
		if n > 0 {
			i = zzscB{y: 6}
		}
		_, okA := i.(zzscA)
		_, p := zzscTry(func() uint64 { return uint64(i.(zzscA).x) })
		t.Assert(okA == (n <= 0) && p == (n > 0) && i.M() == 5+b2i(n > 0), "type assertion: comma-ok reports, plain form panics on mismatch; dynamic dispatch")
		t.ObserveBool("p", p)
		t.Reach("assert")
	case 17:
		v, p := zzscTry(func() uint64 { return uint64(len(make([]byte, n))) })
		t.Assert(p == (n < 0) && (p || v == uint64(n)), "make with a negative length panics")
		t.ObserveBool("p", p)
		t.Reach("makeslice")
	case 18:
		v, p := zzscTry(func() uint64 { return uint64(len(str[n:m])) })
		t.Assert(p == (n < 0 || m < 0 || m > 3 || n > m) && (p || v == uint64(m-n)), "string slice panics iff bounds are negative, inverted or beyond len")
		t.ObserveBool("p", p)
		t.Reach("string-slice")
	case 19:
		// a 256-entry table indexed by a uint8: every index is in range (the length does not fit the index width)
		var tab [256]uint8
		for i := range tab {
			tab[i] = uint8(255 - i)
		}
		x := t.U8("x")
		v, p := zzscTry(func() uint64 { return uint64(tab[x]) })
		t.Assert(!p && v == uint64(255-x), "a 256-entry array indexed by a uint8 never panics")
		ntz := bits.TrailingZeros8(x) // table lookup in a 256-byte constant string
		if x == 0 {
			t.Assert(ntz == 8, "bits.TrailingZeros8(0) = 8")
		} else {
			t.Assert(ntz >= 0 && ntz < 8 && (x>>uint(ntz))&1 == 1 && x&((1<<uint(ntz))-1) == 0, "bits.TrailingZeros8 (constant string table): position of the lowest set bit")
		}
		t.ObserveU64("ntz", uint64(ntz))
		t.Reach("table256")
	default:
		x, y := t.U8("x"), t.U8("y")
		sum := x + y
		t.Assert((uint16(x)+uint16(y) > 255) == (sum < x), "uint8 addition wraps")
		i := t.I32("i")
		t.Assert(i != -2147483648 || -i == i, "negating MinInt32 wraps")
		t.ObserveU64("sum", uint64(sum))
		t.Reach("wrap")
	}
}

func n2(n int) int {
	if n < 0 {
		return 0
	}
	if n > 4 {
		return 4
	}
	return n
}

func b2i(b bool) int {
	if b {
		return 1
	}
	return 0
}
