//go:build verif

package p2p

import (
	"math"

	ma "github.com/multiformats/go-multiaddr"
)

// C18.a: penalties accumulate per IP; an IP is admitted ⇔ it is not blacklisted and its total is
// below MaxPenaltyScore; all gates agree; the arithmetic is exact for the scores callers use.
//
// History: n ≤ N penalties, each on one of two identities (IPv4 / IPv6), symbolic score in 0…100,
// symbolic non-decreasing clock, symbolic blacklist flag per IP (loaded through optionWithBlacklist,
// the configuration path). Checked after every step for both identities.
//
//zz:opt loop=4000
//zz:opt require=end,banned,admitted
//zz:stub time.Now zzStubNow
//zz:quick N=3
//zz:thorough N=4
func zzH_C18_gater_penalties(t *zzT) {
	N := t.Param("N", 3)
	n := t.Range("n", 1, N)
	cg := zzNewGater()

	var bare, full [2]ma.Multiaddr
	bare[0], full[0] = zzAddrs(0)
	bare[1], full[1] = zzAddrs(1)
	ips := [2]string{zzIP0, zzIP1}

	var bl [2]bool
	var list []string
	for i := 0; i < 2; i++ {
		bl[i] = t.Bool(t.Name("blacklisted", i))
		if bl[i] {
			list = append(list, ips[i])
		}
	}
	_, err := cg.optionWithBlacklist(list)
	t.Assert(err == nil, "valid blacklist accepted")

	if t.Symbolic() {
		zzClockSec = t.I64("t0")
		t.Assume(zzClockSec >= 0 && zzClockSec < 1<<40)
	}

	// callers pass either form of the address (with /p2p/<id>: ApplyPenalty, checkLimit; without:
	// onRequest/onResponse); the gates are probed with both forms after every step
	bareForm := t.Bool("penalise via bare address")

	var sum [2]int     // model: total per identity
	var banAt [2]int64 // model: clock of the last penalty that left the total ≥ threshold
	for k := 0; k < n; k++ {
		dt := int64(t.U32(t.Name("dt", k)))
		if t.Symbolic() {
			zzClockSec += dt
		} else {
			// natively the real clock cannot be advanced: the gater only ever compares time.Now() with
			// the absolute expiry instants it stored, so "dt seconds pass" ≡ every stored instant (and
			// the model's) moves dt seconds into the past
			for _, info := range cg.peerScore {
				if info.expiration != -1 {
					info.expiration -= dt
				}
			}
			banAt[0], banAt[1] = banAt[0]-dt, banAt[1]-dt
		}
		who := t.Choice(t.Name("who", k), 2)
		score := t.Int(t.Name("score", k))
		t.Assume(score >= 0 && score <= MaxPenaltyScore)
		addr := full[who]
		if bareForm {
			addr = bare[who]
		}
		now := zzNowSec(t)
		got, err := cg.addPenalty(addr, score)
		sum[who] += score
		t.Assert(t.And(err == nil, got == sum[who]), "returned score is the exact total for that IP (no wrap, no cross-IP leak)")
		if sum[who] >= MaxPenaltyScore {
			banAt[who] = now
		}

		for i := 0; i < 2; i++ {
			a1 := zzGatesAgree(t, cg, bare[i])
			a2 := zzGatesAgree(t, cg, full[i])
			want := t.And(!bl[i], sum[i] < MaxPenaltyScore)
			t.Assert(t.And(a1 == want, a2 == want), "admitted ⇔ not blacklisted ∧ total < MaxPenaltyScore")
			info, ok := cg.peerScore[ips[i]]
			if sum[i] >= MaxPenaltyScore {
				exp := int64(-1)
				if ok {
					exp = info.expiration
				}
				lo := banAt[i] + int64(expireTimeOfConnGater.Seconds())
				if t.Symbolic() {
					t.Assert(exp == lo, "ban expires expireTimeOfConnGater after the last penalty")
				} else {
					// natively the real clock may tick between zzNowSec and addPenalty
					t.Assert(exp >= lo && exp <= lo+2, "ban expires expireTimeOfConnGater after the last penalty")
				}
			} else {
				t.Assert(!ok || info.expiration == -1, "below the threshold no expiry is set")
			}
		}
	}
	banned := 0
	for i := 0; i < 2; i++ {
		if sum[i] >= MaxPenaltyScore {
			banned++
		}
	}
	t.Assert(len(cg.listBannedPeers()) == banned, "listBannedPeers lists exactly the IPs at or above the threshold")
	if banned > 0 {
		t.Reach("banned")
	}
	if !bl[0] && sum[0] < MaxPenaltyScore {
		t.Reach("admitted")
	}
	t.ObserveU64("sum0", uint64(sum[0]))
	t.ObserveU64("sum1", uint64(sum[1]))
	t.Reach("end")
}

// C18.a (probe, observation): scores outside the callers' range. ApplyPenalty(pid, score int) is an
// exported API with no range check. For non-negative scores whose exact total fits an int the
// verdict is still exact; when the exact total exceeds MaxInt the machine sum wraps negative and the
// IP is admitted although its total is far above the threshold — reached as the witness
// "wrap_admitted".
//
//zz:opt loop=4000
//zz:opt require=exact,wrap_admitted
//zz:stub time.Now zzStubNow
func zzH_C18_gater_score_wrap_probe(t *zzT) {
	cg := zzNewGater()
	_, full := zzAddrs(1)
	if t.Symbolic() {
		zzClockSec = 1_700_000_000
	}
	s1, s2 := t.Int("s1"), t.Int("s2")
	t.Assume(s1 >= 0 && s2 >= 0)
	r1, err1 := cg.addPenalty(full, s1)
	a1 := cg.isPeerConnectionAllowed(full)
	t.Assert(err1 == nil && r1 == s1 && a1 == (s1 < MaxPenaltyScore), "first penalty exact")
	r2, err2 := cg.addPenalty(full, s2)
	a2 := cg.isPeerConnectionAllowed(full)
	t.Assert(err2 == nil, "second penalty accepted")
	overflow := s2 > math.MaxInt-s1
	if !overflow {
		t.Assert(r2 == s1+s2, "total exact while it fits an int")
		t.Assert(a2 == (s1+s2 < MaxPenaltyScore), "admitted ⇔ total < MaxPenaltyScore while the total fits an int")
		t.Reach("exact")
		return
	}
	// exact total ≥ 2^63 > threshold
	t.Assert(r2 < 0, "wrapped total is negative")
	if a2 {
		t.ObserveBool("admitted", a2)
		t.Reach("wrap_admitted")
	} else {
		t.Reach("wrap_already_banned")
	}
}

// C18.a (IP identity, incl. IPv6): the blacklist and the penalty table are keyed by the canonical
// text of the IP, so different spellings of one address are one identity: an expanded / upper-case
// IPv6 blacklist entry refuses the compressed form; an IPv4-mapped IPv6 address (::ffff:a.b.c.d) and
// the plain IPv4 address share one score and one ban.
//
//zz:opt loop=4000
//zz:stub time.Now zzStubNow
func zzH_C18_gater_ip_forms(t *zzT) {
	cg := zzNewGater()
	if t.Symbolic() {
		zzClockSec = 1_700_000_000
	}
	_, err := cg.optionWithBlacklist([]string{"2001:0DB8:0000:0000:0000:0000:0006:0005"})
	t.Assert(err == nil, "expanded upper-case IPv6 blacklist entry accepted")
	b1, f1 := zzAddrs(1)
	t.Assert(!zzGatesAgree(t, cg, b1) && !zzGatesAgree(t, cg, f1), "blacklisted IPv6 refused whatever its spelling")
	_, err = cg.optionWithBlacklist([]string{"10.9.8"})
	t.Assert(err != nil, "invalid blacklist entry rejected")

	v4, _ := zzAddrs(0)
	mapped := zzMustAddr("/ip6/::ffff:" + zzIP0 + "/tcp/7667")
	a, b := t.Int("a"), t.Int("b")
	t.Assume(a >= 0 && a <= MaxPenaltyScore && b >= 0 && b <= MaxPenaltyScore)
	r1, err1 := cg.addPenalty(v4, a)
	r2, err2 := cg.addPenalty(mapped, b)
	t.Assert(err1 == nil && err2 == nil && r1 == a && r2 == a+b, "IPv4 and IPv4-mapped IPv6 spellings accumulate into one score")
	want := a+b < MaxPenaltyScore
	t.Assert(zzGatesAgree(t, cg, v4) == want && zzGatesAgree(t, cg, mapped) == want, "both spellings get the same verdict")
	t.Assert(len(cg.peerScore) == 1, "one table entry for the one IP")
	t.Reach("end")
}
