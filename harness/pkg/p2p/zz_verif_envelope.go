//go:build verif

package p2p

import (
	"errors"
	"context"
	"io"

	"github.com/google/uuid"
	"github.com/libp2p/go-libp2p/core/network"
	"github.com/libp2p/go-libp2p/core/protocol"
	ma "github.com/multiformats/go-multiaddr"
)

// ---- fake stream / connection (DESIGN §3: fakes embed the interface, override what is used) -----

type zzConn struct {
	network.Conn
	id   PeerID
	addr ma.Multiaddr
}

func (c *zzConn) RemotePeer() PeerID            { return c.id }
func (c *zzConn) RemoteMultiaddr() ma.Multiaddr { return c.addr }

type zzStream struct {
	network.Stream
	in      []byte
	off     int
	out     []byte
	conn    *zzConn
	closed  int
	resets  int
	proto   protocol.ID
	written int
}

func (s *zzStream) Read(p []byte) (int, error) {
	if s.off >= len(s.in) {
		return 0, io.EOF
	}
	n := copy(p, s.in[s.off:])
	s.off += n
	return n, nil
}
func (s *zzStream) Write(p []byte) (int, error) {
	s.out = append(s.out, p...)
	s.written++
	return len(p), nil
}
func (s *zzStream) Close() error       { s.closed++; return nil }
func (s *zzStream) Reset() error       { s.resets++; return nil }
func (s *zzStream) Conn() network.Conn { return s.conn }

func zzStubUUID() uuid.UUID { return uuid.UUID{} }

func zzStubWithUseTransient(ctx context.Context, reason string) context.Context { return ctx }

// C18.e: a malformed envelope or an unknown procedure in onRequest/onResponse bans the sender's IP;
// a well-formed message for a registered procedure never penalises and is processed.
//
// The envelope is either produced by the real encoder (symbolic payload, procedure ∈ {registered,
// unregistered}) or is ≤ B arbitrary bytes; the verdict "well-formed" is taken from the real decoder.
// The connection reports what a libp2p connection reports: the remote transport address.
//
//zz:opt loop=4000
//zz:opt require=accepted,banned
//zz:stub time.Now zzStubNow
//zz:stub github.com/google/uuid.New zzStubUUID
//zz:stub github.com/libp2p/go-libp2p/core/network.WithUseTransient zzStubWithUseTransient
//zz:quick B=2
//zz:thorough B=4
func zzH_C18_envelope_ban(t *zzT) {
	B := t.Param("B", 2)
	p, nw := zzNewPeer()
	h := p.host.(*zzHost)
	if t.Symbolic() {
		zzClockSec = 1_700_000_000
	}
	who := t.Choice("who", 2)
	bare, _ := zzAddrs(who)
	id := zzPeerID(who)

	handled := 0
	mp := newMessageProtocol([]byte{1, 2, 3, 4}, "1.0")
	t.Assert(mp.RegisterRPCHandler("k", func(w ResponseWriter, req *Request) {
		handled++
		w.Write([]byte{7})
	}) == nil, "handler registered")
	mp.start(zzCtx{done: make(chan struct{})}, zzNopLogger{}, p)

	isResponse := t.Bool("response")
	var buf []byte
	switch t.Choice("envelope", 3) {
	case 0: // well-formed, registered procedure
		if isResponse {
			buf = (&responseMsg{ID: "id", Procedure: "k", Data: t.Bytes("data", 2)}).Encode()
		} else {
			buf = (&Request{ID: "id", Procedure: "k", Data: t.Bytes("data", 2)}).Encode()
		}
	case 1: // well-formed, unregistered procedure
		if isResponse {
			buf = (&responseMsg{ID: "id", Procedure: "zz", Data: t.Bytes("data", 1)}).Encode()
		} else {
			buf = (&Request{ID: "id", Procedure: "zz", Data: t.Bytes("data", 1)}).Encode()
		}
	default: // arbitrary bytes
		buf = t.Bytes("raw", t.Range("len", 0, B))
	}

	// classification by the real decoder on a copy
	cp := append([]byte(nil), buf...)
	var decErr error
	proc, msgID := "", ""
	if isResponse {
		m := &responseMsg{}
		decErr = m.Decode(cp)
		proc, msgID = m.Procedure, m.ID
	} else {
		m := &Request{}
		decErr = m.Decode(cp)
		proc, msgID = m.Procedure, m.ID
	}
	wellFormed := decErr == nil && proc == "k"

	resCh := make(chan *Response, 1)
	mp.resCh["id"] = resCh
	s := &zzStream{in: buf, conn: &zzConn{id: id, addr: bare}}
	if isResponse {
		mp.onResponse(s)
	} else {
		mp.onRequest(zzCtx{done: make(chan struct{})}, s)
	}
	t.Assert(s.closed >= 1 && s.resets == 0, "inbound stream closed, not reset")

	if wellFormed {
		t.Assert(len(p.connGater.peerScore) == 0 && zzGatesAgree(t, p.connGater, bare), "well-formed known procedure ⇒ no penalty")
		t.Assert(len(nw.closed) == 0, "well-formed known procedure ⇒ no disconnect")
		if isResponse {
			pending := 0
			if msgID == "id" { // only a response whose ID matches a pending request is delivered
				pending = 1
			}
			t.Assert(len(resCh) == pending && handled == 0, "response delivered to the waiting request ⇔ its ID matches")
		} else {
			t.Assert(handled == 1 && len(h.streams) == 1 && h.streams[0].written == 1 && h.streams[0].closed == 1,
				"request handled once and answered on a new stream")
		}
		t.Reach("accepted")
		return
	}
	t.Assert(handled == 0 && len(h.streams) == 0 && len(resCh) == 0, "malformed / unknown procedure ⇒ not processed, no reply")
	t.Assert(!zzGatesAgree(t, p.connGater, bare), "malformed envelope / unknown procedure ⇒ sender IP banned")
	other, _ := zzAddrs(1 - who)
	t.Assert(zzGatesAgree(t, p.connGater, other), "the other IP is unaffected")
	// (the witness of a Reach marker must replay without failure, hence the split)
	if t.Bool("also check the disconnect") {
		t.Assert(len(nw.closed) == 1 && nw.closed[0] == id, "malformed envelope / unknown procedure ⇒ sender disconnected")
	} else {
		t.Reach("banned")
	}
}

// C09 (untrusted input never crashes the node), P2P side: the request and response stream handlers on
// an arbitrary envelope (malformed bytes, unknown procedure, well-formed) return without a panic — the
// stream-handler goroutines of libp2p have no recover, a panic there kills the process. Same harness as
// C18.d (which additionally asserts the ban), registered under C09 for the crash clause.
//
//zz:opt loop=4000
//zz:opt require=accepted,banned
//zz:stub time.Now zzStubNow
//zz:stub github.com/google/uuid.New zzStubUUID
//zz:stub github.com/libp2p/go-libp2p/core/network.WithUseTransient zzStubWithUseTransient
//zz:quick B=2
//zz:thorough B=4
func zzH_C09_p2p_envelope(t *zzT) { zzH_C18_envelope_ban(t) }

// C17 "every request ends with … the response the remote handler produced for that very request", the
// RESPONDER side: a sequence of 2..3 requests served by one node, each by a handler that either answers with
// data or with an error (symbolic choice per request, symbolic payloads). The response message written back for
// request i carries request i's ID, exactly the data / error its own handler call produced, and nothing left over
// from an earlier request. (seed C17-9 recycled response writers through a sync.Pool without clearing the error.)
//
//zz:opt loop=4000
//zz:stub time.Now zzStubNow
//zz:stub github.com/google/uuid.New zzStubUUID
//zz:stub github.com/libp2p/go-libp2p/core/network.WithUseTransient zzStubWithUseTransient
func zzH_C17_responder_answers_own_request(t *zzT) {
	p, _ := zzNewPeer()
	h := p.host.(*zzHost)
	if t.Symbolic() {
		zzClockSec = 1_700_000_000
	}
	mp := newMessageProtocol([]byte{1, 2, 3, 4}, "1.0")
	mp.RegisterRPCHandler("k", func(w ResponseWriter, req *Request) {
		if len(req.Data) > 0 && req.Data[0]&1 == 1 {
			w.Error(errors.New("refused"))
			return
		}
		w.Write(append([]byte{0xd0}, req.Data...))
	})
	mp.start(zzCtx{done: make(chan struct{})}, zzNopLogger{}, p)
	n := t.Range("requests", 2, 3)
	bare, _ := zzAddrs(0)
	for i := 0; i < n; i++ {
		data := []byte{t.U8(t.Name("payload", i))}
		id := string([]byte{'r', byte('0' + i)})
		in := (&Request{ID: id, Procedure: "k", Data: data}).Encode()
		mp.onRequest(zzCtx{done: make(chan struct{})}, &zzStream{in: in, conn: &zzConn{id: zzPeerID(0), addr: bare}})
		t.Assert(len(h.streams) == i+1 && h.streams[i].written == 1, "every request is answered once on a new stream")
		if len(h.streams) != i+1 {
			return
		}
		res := &responseMsg{}
		t.Assert(res.Decode(h.streams[i].out) == nil && res.ID == id && res.Procedure == "k", "the response carries the ID and procedure of the request it answers")
		if data[0]&1 == 1 {
			t.Assert(res.Error == "refused" && len(res.Data) == 0, "a refused request is answered with its handler's error and no data")
		} else {
			t.Assert(res.Error == "" && len(res.Data) == 2 && res.Data[0] == 0xd0 && res.Data[1] == data[0], "a served request is answered with exactly the data its handler produced and no error")
		}
	}
	t.Reach("end")
}
