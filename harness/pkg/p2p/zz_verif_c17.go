//go:build verif

package p2p

import (
	"context"
	"errors"
	"io"
	"time"

	"github.com/google/uuid"
	"github.com/libp2p/go-libp2p/core/host"
	"github.com/libp2p/go-libp2p/core/network"
	"github.com/libp2p/go-libp2p/core/peer"
	"github.com/libp2p/go-libp2p/core/protocol"
)

// C17 environment: the local MessageProtocol talks to a fake host. A request written to an outbound
// stream is handed to the "remote side" of the harness, which answers by calling the local
// onResponse with a response stream — either synchronously inside Write (the reply races ahead of
// whatever the requester does after send) or from a separate responder goroutine at a
// scheduler-chosen moment.

var (
	zz17T       *zzT
	zz17UUIDSeq byte
)

func zz17UUID() uuid.UUID {
	zz17UUIDSeq++
	var u uuid.UUID
	u[0] = zz17UUIDSeq
	return u
}

func zz17After(d time.Duration) <-chan time.Time { return zz17T.TimerChan(d) }

type zz17Host struct {
	host.Host
	id       peer.ID
	mp       *MessageProtocol
	inWrite  bool          // deliver the response synchronously inside Write
	sent     chan []byte   // requests handed to the responder goroutine
	requests int
	opens    int
	failOpen, failWrite, shortWrite bool
	stalled  bool          // the remote side never closes its end of a request stream
	silentTo map[peer.ID]bool // peers that read a request and never answer
	never    chan struct{}
}

func (h *zz17Host) ID() peer.ID { return h.id }
func (h *zz17Host) NewStream(ctx context.Context, p peer.ID, pids ...protocol.ID) (network.Stream, error) {
	if h.failOpen {
		h.opens++
		return nil, errors.New("zz17: cannot open stream")
	}
	return &zz17Stream{h: h, to: p}, nil
}
func (h *zz17Host) SetStreamHandler(pid protocol.ID, handler network.StreamHandler) {}

type zz17Stream struct {
	network.Stream
	h  *zz17Host
	to peer.ID
}

func (s *zz17Stream) Close() error { return nil }
func (s *zz17Stream) Reset() error { return nil }

// the remote side of a request stream: a regular peer reads the message and closes at once (EOF for the
// local reader); a stalled peer keeps its side open for ever (stalled: Read never returns)
func (s *zz17Stream) CloseWrite() error { return nil }
func (s *zz17Stream) Read(p []byte) (int, error) {
	if s.h.stalled {
		<-s.h.never
	}
	return 0, io.EOF
}
func (s *zz17Stream) Write(p []byte) (int, error) {
	req := append([]byte{}, p...)
	s.h.requests++
	if s.h.failWrite {
		return 0, errors.New("zz17: write failed")
	}
	if s.h.shortWrite {
		return len(p) - 1, nil
	}
	if s.h.silentTo[s.to] {
		return len(p), nil
	}
	if s.h.inWrite {
		zz17Respond(s.h.mp, req, s.to)
	} else {
		s.h.sent <- req
	}
	return len(p), nil
}

// zz17Respond plays the remote peer: decode the request, produce the handler's answer (payload =
// request payload + 1) and deliver it to the local onResponse.
// zz17BigResponse: when set, the remote handler answers with this payload (zz_verif_c17_large.go).
var zz17BigResponse []byte

func zz17Respond(mp *MessageProtocol, raw []byte, from peer.ID) {
	req := &Request{}
	if err := req.Decode(raw); err != nil {
		return
	}
	data := append([]byte{}, req.Data...)
	for i := range data {
		data[i]++
	}
	if zz17BigResponse != nil {
		data = zz17BigResponse
	}
	res := newResponseMessage(req.ID, req.Procedure, data, nil)
	bare, _ := zzAddrs(0)
	mp.onResponse(&zzStream{in: res.Encode(), conn: &zzConn{id: from, addr: bare}})
}

func zz17New(t *zzT, inWrite bool, timeout time.Duration) (*MessageProtocol, *zz17Host) {
	zz17T = t
	zz17UUIDSeq = 0
	if t.Symbolic() {
		zzClockSec = 1_700_000_000
	}
	h := &zz17Host{id: zzPeerID(1), inWrite: inWrite, sent: make(chan []byte, 4), never: make(chan struct{})}
	p := &Peer{logger: zzNopLogger{}, host: h, connGater: zzNewGater()}
	mp := newMessageProtocol([]byte{1, 2, 3, 4}, "1.0")
	mp.RegisterRPCHandler("k", func(w ResponseWriter, req *Request) {})
	mp.start(zzCtx{done: make(chan struct{})}, zzNopLogger{}, p)
	mp.timeout = timeout
	h.mp = mp
	return mp, h
}

// C17.a: a response that arrives before the deadline is not lost — even when it arrives immediately,
// while the requester is still inside send().
//
//zz:opt loop=4000
//zz:stub time.Now zzStubNow
//zz:stub time.After zz17After
//zz:stub github.com/google/uuid.New zz17UUID
//zz:stub github.com/libp2p/go-libp2p/core/network.WithUseTransient zzStubWithUseTransient
func zzH_C17_reply_before_registration(t *zzT) {
	mp, h := zz17New(t, true, 60*time.Millisecond)
	payload := t.U8("payload")
	res, err := mp.sendRequestMessage(context.Background(), zzPeerID(0), "k", []byte{payload})
	t.Assert(h.requests == 1, "one request was sent")
	t.Assert(err == nil && res != nil, "a response produced before the deadline is returned, not lost")
	if err == nil && res != nil {
		t.Assert(len(res.Data()) == 1 && res.Data()[0] == payload+1, "the response is the one produced for this request")
	}
	t.Assert(len(mp.resCh) == 0, "no pending entry is leaked")
	t.Reach("end")
}

// C17.b/c/d: one request and an asynchronous responder, all interleavings within the context-switch
// budget, the timer firing at any moment: the layer never blocks forever, a delivered response is the
// one for this request, and no pending entry is leaked. Natively the responder answers around the
// timeout to provoke the timeout/response race; a blocked run is caught by the replay watchdog.
//
//zz:opt loop=4000 sched=3 join=1
//zz:stub time.Now zzStubNow
//zz:stub time.After zz17After
//zz:stub github.com/google/uuid.New zz17UUID
//zz:stub github.com/libp2p/go-libp2p/core/network.WithUseTransient zzStubWithUseTransient
func zzH_C17_response_vs_timeout(t *zzT) {
	reps := 1
	timeout := 2 * time.Millisecond
	if !t.Symbolic() {
		reps = 400
	}
	for r := 0; r < reps; r++ {
		mp, h := zz17New(t, false, timeout)
		payload := t.U8("payload")
		done := make(chan struct{})
		go func() {
			defer close(done)
			raw := <-h.sent
			if !t.Symbolic() {
				// answer around the deadline (the engine explores every moment instead)
				time.Sleep(timeout - time.Duration(20+r%40)*time.Microsecond)
			}
			zz17Respond(mp, raw, zzPeerID(0))
		}()
		res, err := mp.sendRequestMessage(context.Background(), zzPeerID(0), "k", []byte{payload})
		if err == nil {
			t.Assert(res != nil && len(res.Data()) == 1 && res.Data()[0] == payload+1, "a delivered response is the one produced for this request")
		} else {
			t.Assert(err == errTimeout, "the only error without cancellation is the timeout")
		}
		<-done // the responder (a stream handler on a real node) must not stay blocked
		t.Assert(len(mp.resCh) == 0, "no pending entry is leaked")
	}
	t.Reach("end")
}

// C17.d: a request whose send fails (stream cannot be opened, write fails or is short, context already
// cancelled) ends with that error and leaves no pending entry behind.
//
//zz:opt loop=4000
//zz:stub time.Now zzStubNow
//zz:stub time.After zz17After
//zz:stub github.com/google/uuid.New zz17UUID
//zz:stub github.com/libp2p/go-libp2p/core/network.WithUseTransient zzStubWithUseTransient
func zzH_C17_send_failure_no_leak(t *zzT) {
	mp, h := zz17New(t, true, 60*time.Millisecond)
	h.failOpen = t.Bool("NewStream fails")
	h.failWrite = t.Bool("Write fails")
	h.shortWrite = t.Bool("short write")
	failing := h.failOpen || h.failWrite || h.shortWrite
	res, err := mp.sendRequestMessage(context.Background(), zzPeerID(0), "k", []byte{t.U8("payload")})
	if failing {
		t.Assert(err != nil && res == nil, "a failed send ends the request with an error")
	} else {
		t.Assert(err == nil && res != nil, "a successful send is answered")
	}
	t.Assert(len(mp.resCh) == 0, "no pending entry is leaked whatever the outcome of the send")
	// the retry wrapper does not retry on a send error
	before := h.requests + h.opens
	_, rerr := mp.request(context.Background(), zzPeerID(0), "k", []byte{1})
	if failing {
		t.Assert(rerr != nil && h.requests+h.opens == before+1, "a send error is not retried")
	}
	t.Assert(len(mp.resCh) == 0, "no pending entry is leaked by the retry wrapper")
	t.Reach("end")
}

var zz17ErrCancelled = errors.New("zz17: context cancelled")

type zz17Ctx struct {
	zzCtx
	cancelled *bool
}

func (c zz17Ctx) Err() error {
	if *c.cancelled {
		return zz17ErrCancelled
	}
	return nil
}

// C17.b/c/d with TWO concurrent requests, a responder that may answer in either order, may duplicate
// the first response and may answer after a timeout, and a canceller that may cancel the context of
// request 0 at any moment — all interleavings within the scheduling budget (blockfree=0: every
// deviation from the lowest-numbered-goroutine policy, also at a blocking point, draws on it).
// Asserted: every request ends; a request that returns a response returns the one produced for ITS
// payload (never the other request's, never a duplicate's); the only errors are the timeout and the
// cancellation (the latter only for the cancelled request); nothing stays blocked; no pending entry
// is leaked.
//
//zz:opt loop=4000 join=1 blockfree=0
//zz:quick sched=1 cancel=0 budget=300s
//zz:thorough sched=1 cancel=1 budget=3600s paths=4000000
//zz:stub time.Now zzStubNow
//zz:stub time.After zz17After
//zz:stub github.com/google/uuid.New zz17UUID
//zz:stub github.com/libp2p/go-libp2p/core/network.WithUseTransient zzStubWithUseTransient
func zzH_C17_concurrent_requests(t *zzT) {
	reps := 1
	timeout := 2 * time.Millisecond
	if !t.Symbolic() {
		reps = 200
	}
	dup := t.Bool("duplicate the first response")
	swap := t.Bool("answer in reverse order")
	cancel := t.Param("cancel", 1) == 1 && t.Bool("cancel request 0")
	p := [2]byte{t.U8("payload0"), t.U8("payload1")}
	t.Assume(p[0] != p[1])
	for r := 0; r < reps; r++ {
		mp, h := zz17New(t, false, timeout)
		var res [2]*Response
		var errs [2]error
		cancelled := false
		ctx0 := zz17Ctx{zzCtx{done: make(chan struct{})}, &cancelled}
		fin := make(chan int, 4)
		for i := 0; i < 2; i++ {
			go func(i int) {
				var ctx context.Context = context.Background()
				if i == 0 {
					ctx = ctx0
				}
				res[i], errs[i] = mp.sendRequestMessage(ctx, zzPeerID(0), "k", []byte{p[i]})
				fin <- i
			}(i)
		}
		go func() {
			a := <-h.sent
			b := <-h.sent
			if swap {
				a, b = b, a
			}
			if !t.Symbolic() {
				time.Sleep(timeout - time.Duration(20+r%40)*time.Microsecond)
			}
			zz17Respond(mp, a, zzPeerID(0))
			if dup {
				zz17Respond(mp, a, zzPeerID(0))
			}
			zz17Respond(mp, b, zzPeerID(0))
			fin <- 2
		}()
		if cancel {
			go func() {
				if !t.Symbolic() {
					time.Sleep(time.Duration(r%3) * time.Millisecond)
				}
				cancelled = true
				close(ctx0.done)
				fin <- 3
			}()
		}
		n := 3
		if cancel {
			n = 4
		}
		for k := 0; k < n; k++ {
			<-fin // every goroutine ends: nothing stays blocked
		}
		for i := 0; i < 2; i++ {
			if errs[i] == nil {
				t.Assert(res[i] != nil && len(res[i].Data()) == 1 && res[i].Data()[0] == p[i]+1, "a delivered response is the one produced for this very request")
			} else {
				t.Assert(errs[i] == errTimeout || (i == 0 && cancel && errs[i] == zz17ErrCancelled), "a request ends with its response, the timeout or its own cancellation")
			}
		}
		t.Assert(len(mp.resCh) == 0, "no pending entry is leaked")
	}
	t.Reach("end")
}

// C17.b over a HISTORY: a first request whose response races with its timeout (the response may land
// after the requester has given up but before the pending entry is gone), followed by a second request
// on the same protocol object. Whatever happened to the first one, the second request ends with the
// response produced for ITS payload — never with a stale response of the first — or with the timeout;
// nothing stays blocked, no pending entry is leaked.
//
//zz:opt loop=4000 sched=2 join=1 blockfree=0
//zz:thorough sched=3 budget=1800s
//zz:stub time.Now zzStubNow
//zz:stub time.After zz17After
//zz:stub github.com/google/uuid.New zz17UUID
//zz:stub github.com/libp2p/go-libp2p/core/network.WithUseTransient zzStubWithUseTransient
func zzH_C17_followup_request(t *zzT) {
	reps := 1
	timeout := 2 * time.Millisecond
	if !t.Symbolic() {
		reps = 300
	}
	p := [2]byte{t.U8("payload0"), t.U8("payload1")}
	t.Assume(p[0] != p[1])
	for r := 0; r < reps; r++ {
		mp, h := zz17New(t, false, timeout)
		done := make(chan struct{}, 2)
		go func() {
			raw := <-h.sent
			if !t.Symbolic() {
				time.Sleep(timeout - time.Duration(20+r%40)*time.Microsecond) // around the first deadline
			}
			zz17Respond(mp, raw, zzPeerID(0))
			done <- struct{}{}
			raw = <-h.sent
			zz17Respond(mp, raw, zzPeerID(0))
			done <- struct{}{}
		}()
		res0, err0 := mp.sendRequestMessage(context.Background(), zzPeerID(0), "k", []byte{p[0]})
		if err0 == nil {
			t.Assert(res0 != nil && len(res0.Data()) == 1 && res0.Data()[0] == p[0]+1, "a delivered response is the one produced for this request")
		} else {
			t.Assert(err0 == errTimeout, "the only error without cancellation is the timeout")
		}
		<-done
		res1, err1 := mp.sendRequestMessage(context.Background(), zzPeerID(0), "k", []byte{p[1]})
		if err1 == nil {
			t.Assert(res1 != nil && len(res1.Data()) == 1 && res1.Data()[0] == p[1]+1, "a later request never receives the response produced for an earlier one")
		} else {
			t.Assert(err1 == errTimeout, "the only error without cancellation is the timeout")
		}
		<-done
		t.Assert(len(mp.resCh) == 0, "no pending entry is leaked")
	}
	t.Reach("end")
}

// ---- C17 "within its timeout … not lost when it arrives before the deadline": a symbolic wall clock ----

var (
	zz17Nsec   int64           // sub-second part of the stubbed wall clock (symbolic under the engine)
	zz17Waits  []time.Duration // every duration handed to time.After
)

func zz17NowSub() time.Time { return time.Unix(zzClockSec, zz17Nsec) }
func zz17AfterRec(d time.Duration) <-chan time.Time {
	zz17Waits = append(zz17Waits, d)
	return zz17T.TimerChan(d)
}

// The wait for a response lasts the full configured timeout on EVERY attempt, whatever the wall clock
// reads (any sub-second phase) when the request is created: a response that arrives before the deadline
// cannot be cut off by clock arithmetic. Under the engine the clock is a stub with a symbolic nanosecond
// part, nobody answers, and every duration the layer hands to time.After is compared with the timeout.
// Natively the request is issued late in a wall-clock second and answered after half the timeout: it
// must be delivered. (seed C17-5 derived the deadline from the request's timestamp, which has
// one-second granularity.)
//
//zz:opt loop=4000 timeout=60000
//zz:stub time.Now zz17NowSub
//zz:stub time.After zz17AfterRec
//zz:stub github.com/google/uuid.New zz17UUID
//zz:stub github.com/libp2p/go-libp2p/core/network.WithUseTransient zzStubWithUseTransient
func zzH_C17_wait_lasts_full_timeout(t *zzT) {
	const label = "the wait for a response lasts the full timeout whatever the wall clock reads (a response before the deadline is not lost)"
	timeout := 600 * time.Millisecond
	if t.Symbolic() {
		ns := t.U32("clock.nsec")
		t.Assume(ns < 1_000_000_000)
		zz17Nsec = int64(ns)
		zz17Waits = nil
		mp, h := zz17New(t, false, timeout)
		_, err := mp.request(context.Background(), zzPeerID(0), "k", []byte{1})
		t.Assert(err == errTimeout, "an unanswered request ends with the timeout error")
		t.Assert(h.requests == messageMaxRetries+1 && len(zz17Waits) == messageMaxRetries+1, "one wait per attempt, retry budget respected")
		for _, d := range zz17Waits {
			t.Assert(d >= timeout, label)
		}
		t.Assert(len(mp.resCh) == 0, "no pending entry is leaked")
		t.Reach("end")
		return
	}
	// native: phase 0.85 .. 0.95 of a wall-clock second, response after half the timeout
	for time.Now().Nanosecond() < 850_000_000 || time.Now().Nanosecond() > 950_000_000 {
		time.Sleep(5 * time.Millisecond)
	}
	mp, h := zz17New(t, false, timeout)
	go func() {
		raw := <-h.sent
		time.Sleep(timeout / 2)
		zz17Respond(mp, raw, zzPeerID(0))
	}()
	res, err := mp.sendRequestMessage(context.Background(), zzPeerID(0), "k", []byte{1})
	t.Assert(err == nil && res != nil, label)
	t.Reach("end")
}

// C17 "every request ends — within its timeout and retry budget — with a response or an error": a STALLED
// peer (accepts the stream, reads the request, never answers and never closes its side of the stream) cannot
// hold a request for longer than the retry budget: the request ends with the timeout error after
// messageMaxRetries+1 attempts, and no pending entry is left. (seed C17-6 made send() wait for the remote
// side's EOF without a deadline.)
//
//zz:opt loop=4000 sched=1 join=1
//zz:stub time.Now zzStubNow
//zz:stub time.After zz17After
//zz:stub github.com/google/uuid.New zz17UUID
//zz:stub github.com/libp2p/go-libp2p/core/network.WithUseTransient zzStubWithUseTransient
func zzH_C17_stalled_peer_request_ends(t *zzT) {
	mp, h := zz17New(t, false, 3*time.Millisecond)
	h.stalled = true
	h.sent = make(chan []byte, messageMaxRetries+2) // nobody answers
	_, err := mp.request(context.Background(), zzPeerID(0), "k", []byte{t.U8("payload")})
	t.Assert(err == errTimeout, "a request to a stalled peer ends with the timeout error")
	t.Assert(h.requests == messageMaxRetries+1, "the retry budget is respected")
	t.Assert(len(mp.resCh) == 0, "no pending entry is leaked")
	t.Reach("end")
}

// C17 "a response is never delivered to a different request": the correlation key. Two requests created by the
// same node for the same procedure with the same payload within the same second (block sync asks every peer
// for getLastBlock with an empty payload) carry different request IDs, so their pending entries cannot collide.
// (seed C17-7 derived the ID from sender, procedure, payload and the creation time in seconds.)
//
//zz:opt loop=4000
//zz:stub time.Now zzStubNow
//zz:stub github.com/google/uuid.New zz17UUID
func zzH_C17_request_ids_unique(t *zzT) {
	zz17UUIDSeq = 0
	if t.Symbolic() {
		zzClockSec = 1_700_000_000
	}
	n := t.Range("payload.len", 0, 2)
	data := t.Bytes("payload", n)
	a := newRequestMessage(zzPeerID(1), "getLastBlock", data)
	b := newRequestMessage(zzPeerID(1), "getLastBlock", append([]byte{}, data...))
	t.Assert(a.ID != b.ID, "two requests with the same sender, procedure, payload and second carry different IDs")
	t.Reach("end")
}

// ---- Broadcast: the same request to every connected peer ----

type zz17Net struct {
	network.Network
	peers []peer.ID
}

func (n *zz17Net) Peers() []peer.ID { return n.peers }

type zz17BHost struct {
	*zz17Host
	net *zz17Net
}

func (h *zz17BHost) Network() network.Network { return h.net }

// C17 "every request ends … with … an error; no combination of concurrent requests, timeouts … can leave the
// request/response layer blocked": MessageProtocol.Broadcast towards 2..3 connected peers of which any subset
// never answers (stalled). Broadcast returns — with an error iff some peer did not answer —, every goroutine it
// started has ended, and no pending entry is left. (seed C17-8: a concurrent Broadcast whose workers report
// into a one-slot error channel that is read only after all of them finished: the second failing worker blocks.)
//
//zz:opt loop=4000 sched=1 join=1 blockfree=0
//zz:stub time.Now zzStubNow
//zz:stub time.After zz17After
//zz:stub github.com/google/uuid.New zz17UUID
//zz:stub github.com/libp2p/go-libp2p/core/network.WithUseTransient zzStubWithUseTransient
func zzH_C17_broadcast_returns(t *zzT) {
	mp, h := zz17New(t, true, 2*time.Millisecond) // peers that answer do so at once, inside Write
	n := t.Range("peers", 2, 3)
	silent := make(map[peer.ID]bool)
	anySilent := false
	net := &zz17Net{}
	for i := 0; i < n; i++ {
		id := peer.ID([]byte{0x12, 0x20, byte(i)})
		net.peers = append(net.peers, id)
		if t.Bool(t.Name("silent", i)) {
			silent[id] = true
			anySilent = true
		}
	}
	h.silentTo = silent
	mp.peer.host = &zz17BHost{zz17Host: h, net: net}
	err := mp.Broadcast(context.Background(), "k", []byte{t.U8("payload")})
	t.Assert((err != nil) == anySilent, "Broadcast reports an error iff some connected peer did not answer")
	t.Assert(len(mp.resCh) == 0, "no pending entry is leaked")
	t.Reach("end")
}
