//go:build verif

package p2p

import (
	"context"

	"github.com/libp2p/go-libp2p/core/host"
	"github.com/libp2p/go-libp2p/core/network"
	"github.com/libp2p/go-libp2p/core/peer"
	"github.com/libp2p/go-libp2p/core/protocol"
	ma "github.com/multiformats/go-multiaddr"
)

// ---- fake host: only Network().ClosePeer is implemented; any other call nil-panics --------------

type zzNet struct {
	network.Network
	closed []PeerID
	conns  map[PeerID][]network.Conn
}

func (n *zzNet) ConnsToPeer(p PeerID) []network.Conn { return n.conns[p] }

func (n *zzNet) ClosePeer(p PeerID) error {
	n.closed = append(n.closed, p)
	return nil
}

type zzHost struct {
	host.Host
	net      *zzNet
	streams  []*zzStream // outbound streams opened through NewStream
	handlers int
}

func (h *zzHost) Network() network.Network { return h.net }

func (h *zzHost) SetStreamHandler(pid protocol.ID, handler network.StreamHandler) { h.handlers++ }

func (h *zzHost) NewStream(ctx context.Context, p peer.ID, pids ...protocol.ID) (network.Stream, error) {
	s := &zzStream{conn: &zzConn{id: p}}
	if len(pids) > 0 {
		s.proto = pids[0]
	}
	h.streams = append(h.streams, s)
	return s, nil
}

func zzNewPeer() (*Peer, *zzNet) {
	n := &zzNet{}
	return &Peer{logger: zzNopLogger{}, host: &zzHost{net: n}, connGater: zzNewGater()}, n
}

func zzPeerID(i int) PeerID {
	zzEnv()
	s := zzPID0
	if i == 1 {
		s = zzPID1
	}
	id, err := peer.Decode(s)
	if err != nil {
		panic("zz: bad harness peer id: " + err.Error())
	}
	return id
}

// C18.d: Peer.addPenalty disconnects the peer ⇔ the new total of its IP reaches MaxPenaltyScore;
// Peer.banPeer always does. Addresses carry the /p2p/<id> component (the form ApplyPenalty, BanPeer
// and rateLimit.checkLimit construct).
//
//zz:opt loop=4000
//zz:opt require=end,disconnected,kept
//zz:stub time.Now zzStubNow
//zz:quick N=3
//zz:thorough N=4
func zzH_C18_peer_penalty_disconnect(t *zzT) {
	N := t.Param("N", 3)
	n := t.Range("n", 1, N)
	p, nw := zzNewPeer()
	var full [2]ma.Multiaddr
	_, full[0] = zzAddrs(0)
	_, full[1] = zzAddrs(1)
	ids := [2]PeerID{zzPeerID(0), zzPeerID(1)}
	if t.Symbolic() {
		zzClockSec = 1_700_000_000
	}
	var sum [2]int
	sawDisc, sawKept := false, false
	for k := 0; k < n; k++ {
		who := t.Choice(t.Name("who", k), 2)
		before := len(nw.closed)
		if t.Bool(t.Name("ban", k)) {
			err := p.banPeer(full[who])
			sum[who] += MaxPenaltyScore
			t.Assert(err == nil, "banPeer succeeds")
			t.Assert(len(nw.closed) == before+1 && nw.closed[before] == ids[who], "banPeer disconnects exactly that peer")
			sawDisc = true
		} else {
			score := t.Int(t.Name("score", k))
			t.Assume(score >= 0 && score <= MaxPenaltyScore)
			err := p.addPenalty(full[who], score)
			sum[who] += score
			t.Assert(err == nil, "addPenalty succeeds")
			if sum[who] >= MaxPenaltyScore {
				t.Assert(len(nw.closed) == before+1 && nw.closed[before] == ids[who], "total ≥ MaxPenaltyScore ⇒ that peer is disconnected")
				sawDisc = true
			} else {
				t.Assert(len(nw.closed) == before, "total < MaxPenaltyScore ⇒ nobody is disconnected")
				sawKept = true
			}
		}
		for i := 0; i < 2; i++ {
			t.Assert(p.connGater.isPeerConnectionAllowed(full[i]) == (sum[i] < MaxPenaltyScore), "gater verdict follows the total")
		}
	}
	if sawDisc {
		t.Reach("disconnected")
	}
	if sawKept {
		t.Reach("kept")
	}
	t.Reach("end")
}

// C18.d/e: the address form onRequest/onResponse pass to banPeer. A libp2p connection reports its
// remote address as the transport address ("/ip4/…/tcp/…", no "/p2p/<id>" component — which is why
// ApplyPenalty, BanPeer and checkLimit append "/p2p/"+id themselves); onRequest/onResponse hand
// s.Conn().RemoteMultiaddr() to banPeer unchanged. The property demands that the offender is
// refused from now on AND disconnected.
//
//zz:opt loop=4000
//zz:stub time.Now zzStubNow
func zzH_C18_peer_ban_transport_addr(t *zzT) {
	p, nw := zzNewPeer()
	who := t.Choice("who", 2)
	bare, full := zzAddrs(who)
	addr := bare
	withID := t.Bool("address carries /p2p/<id>")
	if withID {
		addr = full // control: the form the unit tests of the package use
	}
	if t.Symbolic() {
		zzClockSec = 1_700_000_000
	}
	err := p.banPeer(addr)
	t.Assert(!p.connGater.isPeerConnectionAllowed(bare), "banned IP is refused")
	t.ObserveBool("banPeer returned error", err != nil)
	t.ObserveU64("disconnect calls", uint64(len(nw.closed)))
	// banPeer can only find the connection when the address names the peer; the message protocol now
	// appends "/p2p/<id>" before calling it (fix 0810e6a; the end-to-end obligation is
	// zzH_C18_envelope_ban), so only that form is demanded here.
	if withID {
		t.Assert(len(nw.closed) == 1, "banPeer on an address carrying the peer ID disconnects the peer")
		t.Reach("control")
	} else {
		t.Reach("bare")
	}
}

// C18.d (exported entry points): Connection.ApplyPenalty / BanPeer resolve the peer's open
// connections and penalise the IP of each (they append "/p2p/<id>" themselves, so the disconnect
// works). The peer has 1–2 connections: from one IP, or from two IPs (multi-homed / v4+v6), or two
// connections from the same IP (e.g. two ports).
// Asserted: every IP the peer is connected from is charged, nobody else is; disconnect ⇔ an IP of the
// peer reaches the threshold; BanPeer refuses every IP of the peer and disconnects.
// Observation (Reach "same_ip_charged_per_connection"): with two connections from one IP a single
// ApplyPenalty(score) charges that IP 2·score.
//
//zz:opt loop=4000
//zz:opt require=end,same_ip_charged_per_connection
//zz:stub time.Now zzStubNow
func zzH_C18_conn_apply_penalty(t *zzT) {
	p, nw := zzNewPeer()
	conn := &Connection{logger: zzNopLogger{}, Peer: p}
	if t.Symbolic() {
		zzClockSec = 1_700_000_000
	}
	id := zzPeerID(0)
	b0, _ := zzAddrs(0)
	b1, _ := zzAddrs(1)
	b0b := zzMustAddr("/ip4/" + zzIP0 + "/tcp/9999")
	// charge[i] = number of connections of the peer from IP i
	var charge [2]int
	switch t.Choice("topology", 4) {
	case 0:
		nw.conns = map[PeerID][]network.Conn{id: {&zzConn{id: id, addr: b0}}}
		charge = [2]int{1, 0}
	case 1:
		nw.conns = map[PeerID][]network.Conn{id: {&zzConn{id: id, addr: b0}, &zzConn{id: id, addr: b1}}}
		charge = [2]int{1, 1}
	case 2:
		nw.conns = map[PeerID][]network.Conn{id: {&zzConn{id: id, addr: b0}, &zzConn{id: id, addr: b0b}}}
		charge = [2]int{2, 0}
	default:
		nw.conns = map[PeerID][]network.Conn{} // not connected
	}
	ips := [2]string{zzIP0, zzIP1}
	var sum [2]int
	n := t.Range("n", 1, 2)
	for k := 0; k < n; k++ {
		before := len(nw.closed)
		if t.Bool(t.Name("ban", k)) {
			conn.BanPeer(id)
			for i := 0; i < 2; i++ {
				sum[i] += charge[i] * MaxPenaltyScore
			}
			if charge[0]+charge[1] > 0 {
				t.Assert(len(nw.closed) > before && nw.closed[before] == id, "BanPeer disconnects the peer")
			}
		} else {
			score := t.Int(t.Name("score", k))
			t.Assume(score >= 0 && score <= MaxPenaltyScore)
			conn.ApplyPenalty(id, score)
			reached := false
			for i := 0; i < 2; i++ {
				was := sum[i]
				sum[i] += charge[i] * score
				if charge[i] > 0 && (sum[i] >= MaxPenaltyScore || was+score >= MaxPenaltyScore) {
					reached = true
				}
			}
			t.Assert((len(nw.closed) > before) == reached, "ApplyPenalty disconnects ⇔ an IP of the peer reaches the threshold")
			if charge[0] == 2 && score > 0 && k == 0 {
				t.ObserveU64("charged", uint64(zzScoreOf(p.connGater, zzIP0)))
				t.ObserveU64("score", uint64(score))
				t.Reach("same_ip_charged_per_connection")
			}
		}
		for i := 0; i < 2; i++ {
			t.Assert(zzScoreOf(p.connGater, ips[i]) == sum[i], "each connection's IP is charged the score; other IPs are not")
			a := b0
			if i == 1 {
				a = b1
			}
			t.Assert(zzGatesAgree(t, p.connGater, a) == (sum[i] < MaxPenaltyScore), "IP refused ⇔ its total ≥ MaxPenaltyScore")
		}
	}
	t.Reach("end")
}
