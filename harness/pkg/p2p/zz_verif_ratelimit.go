//go:build verif

package p2p

import (
	"sync"
	"time"

	ma "github.com/multiformats/go-multiaddr"
)

const (
	zzProcA = "getThing"
	zzProcB = "postThing"
)

func zzNewRateLimit(p *Peer, limit, penalty int) *rateLimit {
	rl := &rateLimit{
		rpcMessageCounters: make(map[string]*rpcMessageCounter),
		interval:           time.Millisecond,
	}
	for _, name := range []string{zzProcA, zzProcB} {
		if err := rl.addRPCMessageCounter(name); err != nil {
			panic("zz: " + err.Error())
		}
		rl.rpcMessageCounters[name].limit = limit
		rl.rpcMessageCounters[name].penalty = penalty
	}
	rl.start(zzNopLogger{}, p)
	return rl
}

func zzScoreOf(cg *connectionGater, ip string) int {
	if info, ok := cg.peerScore[ip]; ok {
		return info.score
	}
	return 0
}

// C18.c: a message is penalised ⇔ the sender's count for that procedure within the current interval
// exceeds the limit; the counter restarts after a penalty; counts are per (procedure, peer); k ≤ limit
// messages are never penalised; the penalty lands on the sender's IP and disconnects at the threshold.
//
// History: k ≤ K messages, each from one of two peers on one of two procedures, symbolic limit
// (0…K) and penalty (0…100). The real increaseCounter/checkLimit pair is called per message exactly
// as onRequest/onResponse do (remote address = transport address of the connection).
//
//zz:opt loop=4000
//zz:opt require=end,penalised,clean
//zz:stub time.Now zzStubNow
//zz:quick K=5
//zz:thorough K=6
func zzH_C18_ratelimit_counts(t *zzT) {
	K := t.Param("K", 4)
	k := t.Range("k", 1, K)
	limit, penalty := t.Int("limit"), t.Int("penalty")
	t.Assume(limit >= 0 && limit <= K && penalty >= 0 && penalty <= MaxPenaltyScore)
	p, nw := zzNewPeer()
	rl := zzNewRateLimit(p, limit, penalty)
	if t.Symbolic() {
		zzClockSec = 1_700_000_000
	}
	var bare [2]ma.Multiaddr
	bare[0], _ = zzAddrs(0)
	bare[1], _ = zzAddrs(1)
	ids := [2]PeerID{zzPeerID(0), zzPeerID(1)}
	ips := [2]string{zzIP0, zzIP1}
	procs := [2]string{zzProcA, zzProcB}

	var cnt [2][2]int // model: [procedure][peer] messages in the current interval since the last penalty
	var sum [2]int    // model: penalty total per peer IP
	penalised := false
	for i := 0; i < k; i++ {
		who := t.Choice(t.Name("who", i), 2)
		pr := 0
		if i == 1 { // one message on the other procedure: counters are per procedure
			pr = 1
		}
		before := len(nw.closed)
		rl.increaseCounter(procs[pr], ids[who])
		err := rl.checkLimit(procs[pr], ids[who], bare[who])
		t.Assert(err == nil, "checkLimit succeeds")
		cnt[pr][who]++
		if cnt[pr][who] > limit {
			cnt[pr][who] = 0
			sum[who] += penalty
			penalised = true
			if sum[who] >= MaxPenaltyScore {
				t.Assert(len(nw.closed) == before+1 && nw.closed[before] == ids[who], "rate-limit penalty reaching the threshold disconnects the sender")
			}
		}
		if sum[who] < MaxPenaltyScore || cnt[pr][who] != 0 {
			t.Assert(len(nw.closed) == before, "no disconnect without a penalty reaching the threshold")
		}
		t.Assert(zzScoreOf(p.connGater, ips[0]) == sum[0] && zzScoreOf(p.connGater, ips[1]) == sum[1],
			"penalty applied ⇔ count within the interval > limit (per procedure and peer), on the sender's IP only")
		t.Assert(rl.rpcMessageCounters[procs[pr]].counters[ids[who]] == cnt[pr][who], "counter = messages since the last penalty in this interval")
	}
	if k <= limit {
		t.Assert(!penalised && len(p.connGater.peerScore) == 0, "k ≤ limit messages are never penalised")
	}
	if penalised {
		t.Reach("penalised")
	} else {
		t.Reach("clean")
	}
	t.Reach("end")
}

// C18.c (reset): counters are reset per interval. m messages, [interval tick], m more messages from
// the same peer on the same procedure, with m ≤ limit < 2m: penalised ⇔ no tick in between.
// The real rateLimiterHandler goroutine is driven: ticker = harness channel (Reset is a no-op),
// ctx = harness context; tick, cancel, join.
//
//zz:opt loop=4000 sched=1 mapperm=1
//zz:opt require=reset,no_reset
//zz:stub time.Now zzStubNow
//zz:stub time.NewTicker zzStubNewTicker
//zz:stub (*time.Ticker).Reset zzStubTickerReset
//zz:quick M=3
//zz:thorough M=5
func zzH_C18_ratelimit_interval_reset(t *zzT) {
	M := t.Param("M", 3)
	m := t.Range("m", 1, M)
	limit := t.Int("limit")
	t.Assume(limit >= m && limit < 2*m)
	p, _ := zzNewPeer()
	rl := zzNewRateLimit(p, limit, 10)
	if t.Symbolic() {
		zzClockSec = 1_700_000_000
	}
	bare, _ := zzAddrs(1)
	id := zzPeerID(1)
	other := zzPeerID(0)

	send := func(n int) {
		for i := 0; i < n; i++ {
			rl.increaseCounter(zzProcA, id)
			t.Assert(rl.checkLimit(zzProcA, id, bare) == nil, "checkLimit succeeds")
		}
	}
	send(m)
	rl.increaseCounter(zzProcB, other)
	// a busy interval: 0, 2 or 100 further peers were each heard once on the same procedure (the
	// counter table the reset has to clear is small or large)
	crowd := []int{0, 2, 100}[t.Choice("crowd", 3)]
	for i := 0; i < crowd; i++ {
		rl.increaseCounter(zzProcA, PeerID("crowd-"+string(rune('A'+i/26))+string(rune('a'+i%26))))
	}
	t.Assert(zzScoreOf(p.connGater, zzIP1) == 0, "m ≤ limit messages: no penalty")

	tick := t.Bool("interval elapses")
	if !t.Symbolic() && !tick {
		rl.interval = time.Hour // natively the real ticker must not fire in the "no tick" history
	}
	ctx := zzCtx{done: make(chan struct{})}
	wg := &sync.WaitGroup{}
	wg.Add(1)
	if t.Symbolic() {
		zzTickCh = make(chan time.Time) // the handler creates its ticker inside the goroutine
	}
	go rateLimiterHandler(ctx, wg, rl)
	if tick {
		zzTick(t)
	}
	close(ctx.done)
	wg.Wait()

	if tick {
		t.Assert(rl.rpcMessageCounters[zzProcA].counters[id] == 0 && rl.rpcMessageCounters[zzProcB].counters[other] == 0,
			"every counter is reset at the interval boundary")
	}
	send(m)
	if tick {
		t.Assert(zzScoreOf(p.connGater, zzIP1) == 0, "≤ limit messages per interval are never penalised")
		t.Reach("reset")
	} else {
		t.Assert(zzScoreOf(p.connGater, zzIP1) == 10, "> limit messages within one interval are penalised once")
		t.Reach("no_reset")
	}
}

// C18.c under the real concurrency of the stream handlers: every inbound stream runs in its own
// goroutine and calls increaseCounter and then checkLimit, which take the counter's mutex separately.
// A peer is already AT the limit; two further messages of it are handled concurrently — all
// interleavings of the four critical sections. Whatever the interleaving, sending more than `limit`
// messages within the interval is penalised at least once, and the counter is reset by the penalty.
//
//zz:opt loop=4000 sched=2 join=1 blockfree=0 schedule=1
//zz:stub time.Now zzStubNow
func zzH_C18_ratelimit_concurrent_streams(t *zzT) {
	limit := t.Range("limit", 0, 2)
	penalty := 10
	p, _ := zzNewPeer()
	rl := zzNewRateLimit(p, limit, penalty)
	if t.Symbolic() {
		zzClockSec = 1_700_000_000
	}
	bare, _ := zzAddrs(0)
	id := zzPeerID(0)
	for i := 0; i < limit; i++ { // bring the peer to the limit, sequentially: no penalty yet
		rl.increaseCounter(zzProcA, id)
		if err := rl.checkLimit(zzProcA, id, bare); err != nil {
			t.Fail("setup: checkLimit")
		}
	}
	t.Assert(zzScoreOf(p.connGater, zzIP0) == 0, "limit messages are not penalised")
	var wg sync.WaitGroup
	for s := 0; s < 2; s++ {
		wg.Add(1)
		go func(s int) {
			defer wg.Done()
			if !t.Symbolic() && s == 1 {
				time.Sleep(time.Millisecond)
			}
			rl.increaseCounter(zzProcA, id)
			if !t.Symbolic() {
				time.Sleep(5 * time.Millisecond) // natively: both streams increase before either checks
			}
			_ = rl.checkLimit(zzProcA, id, bare)
		}(s)
	}
	wg.Wait()
	t.Assert(zzScoreOf(p.connGater, zzIP0) >= penalty, "limit+2 messages within the interval are penalised whatever the interleaving of the two streams")
	t.Assert(rl.rpcMessageCounters[zzProcA].counters[id] <= 1, "the penalty resets the counter (at most the one message handled after it remains)")
	t.Reach("end")
}

// C17 premise: every inbound request and response passes increaseCounter / checkLimit before it reaches
// the pending-request table, so the request/response layer can only stay live if the periodic reset of
// the rate limiter always releases the counter locks — for small and large counter tables. Same harness
// as C18.c (reset), registered under C17 for the "nothing stays blocked" clause (a lock left held shows
// as a deadlock of the next message).
//
//zz:opt loop=4000 sched=1 mapperm=1
//zz:opt require=reset,no_reset
//zz:stub time.Now zzStubNow
//zz:stub time.NewTicker zzStubNewTicker
//zz:stub (*time.Ticker).Reset zzStubTickerReset
//zz:quick M=3
//zz:thorough M=5
func zzH_C17_ratelimit_reset_never_blocks(t *zzT) { zzH_C18_ratelimit_interval_reset(t) }
