//go:build verif

package p2p

import (
	"sync"
	"time"

	"github.com/libp2p/go-libp2p/core/network"
	ma "github.com/multiformats/go-multiaddr"

	"github.com/LiskHQ/lisk-engine/pkg/log"
)

// ---- environment shared by the C18 harnesses (DESIGN §3) -------------------------------------

// zzNopLogger: logging has no effect on state.
type zzNopLogger struct{}

func (zzNopLogger) Debug(string, ...interface{})     {}
func (zzNopLogger) Info(string, ...interface{})      {}
func (zzNopLogger) Error(string, ...interface{})     {}
func (zzNopLogger) Debugf(string, ...interface{})    {}
func (zzNopLogger) Infof(string, ...interface{})     {}
func (zzNopLogger) Errorf(string, ...interface{})    {}
func (zzNopLogger) Warning(string, ...interface{})   {}
func (zzNopLogger) Warningf(string, ...interface{})  {}
func (l zzNopLogger) With(...interface{}) log.Logger { return l }

// Harness clock. Under the engine `//zz:stub time.Now zzStubNow` redirects time.Now to zzStubNow,
// which returns the (symbolic) second count the harness put into zzClockSec. Natively the real
// time.Now runs; harnesses derive every timestamp they compare against from zzNowSec.
var zzClockSec int64

func zzStubNow() time.Time { return time.Unix(zzClockSec, 0) }

func zzNowSec(t *zzT) int64 {
	if t.Symbolic() {
		return zzClockSec
	}
	return time.Now().Unix()
}

// The two peer identities: one IPv4, one IPv6 (both with and without the /p2p component).
const (
	zzPID0  = "12D3KooWPjceQrSwdWXPyLLeABRXmuqt69Rg3sBYbU1Nft9HyQ6X"
	zzPID1  = "12D3KooWH3uVF6wv47WnArKHk5p6cvgCJEb74UTmxztmQDc298L3"
	zzIP0   = "10.9.8.7"
	zzIP1   = "2001:db8::6:5"
	zzBase0 = "/ip4/" + zzIP0 + "/tcp/7667"
	zzBase1 = "/ip6/" + zzIP1 + "/tcp/7667"
)

// zzForceInit is intercepted by the engine (intrinsics_p2p.go): it interprets the initialiser of a
// third-party package, which the engine skips by default. Natively a no-op.
func zzForceInit(pkgPath string) {}

// zzEnv prepares the third-party tables the address code needs under the engine.
func zzEnv() {
	zzForceInit("github.com/mr-tron/base58/base58")
	zzForceInit("github.com/multiformats/go-varint")
	zzForceInit("github.com/multiformats/go-multihash")
	zzForceInit("github.com/multiformats/go-multiaddr")
}

func zzMustAddr(s string) ma.Multiaddr {
	zzEnv()
	a, err := ma.NewMultiaddr(s)
	if err != nil {
		panic("zz: bad harness multiaddr " + s + ": " + err.Error())
	}
	return a
}

// zzAddrs returns for identity i ∈ {0,1}: the bare transport address and the address with /p2p/<id>.
func zzAddrs(i int) (bare, full ma.Multiaddr) {
	if i == 0 {
		return zzMustAddr(zzBase0), zzMustAddr(zzBase0 + "/p2p/" + zzPID0)
	}
	return zzMustAddr(zzBase1), zzMustAddr(zzBase1 + "/p2p/" + zzPID1)
}

// zzNewGater builds a started gater by struct literal: no ticker, no goroutine.
func zzNewGater() *connectionGater {
	return &connectionGater{
		mutex:         new(sync.RWMutex),
		peerScore:     make(map[string]*peerInfo),
		blockedAddrs:  make(map[string]struct{}),
		logger:        zzNopLogger{},
		expiration:    expireTimeOfConnGater,
		intervalCheck: intervalCheckOfConnGater,
		isStarted:     true,
	}
}

// zzConnAddrs is a network.ConnMultiaddrs with a fixed remote address.
type zzConnAddrs struct{ remote ma.Multiaddr }

func (c zzConnAddrs) LocalMultiaddr() ma.Multiaddr  { return zzMustAddr("/ip4/127.0.0.1/tcp/1") }
func (c zzConnAddrs) RemoteMultiaddr() ma.Multiaddr { return c.remote }

var _ network.ConnMultiaddrs = zzConnAddrs{}

// zzGatesAgree checks that every Intercept* gate gives the verdict of isPeerConnectionAllowed
// (outbound InterceptSecured: always true, as documented in the code) and returns that verdict.
func zzGatesAgree(t *zzT, cg *connectionGater, addr ma.Multiaddr) bool {
	allowed := cg.isPeerConnectionAllowed(addr)
	cma := zzConnAddrs{remote: addr}
	agree := t.And(cg.InterceptAddrDial(PeerID(""), addr) == allowed, cg.InterceptAccept(cma) == allowed)
	agree = t.And(agree, cg.InterceptSecured(network.DirInbound, PeerID(""), cma) == allowed)
	t.Assert(agree, "InterceptAddrDial, InterceptAccept and inbound InterceptSecured agree with isPeerConnectionAllowed")
	t.Assert(t.And(cg.InterceptSecured(network.DirOutbound, PeerID(""), cma), cg.InterceptPeerDial(PeerID(""))),
		"outbound InterceptSecured and InterceptPeerDial always true (filtered at InterceptAddrDial)")
	return allowed
}
