//go:build verif

package p2p

import (
	"context"
	"time"
)

// C17 "a response ... is not lost when it arrives before the deadline" at the LARGEST size the node's own
// handlers produce: the getBlocksFromId handler answers with up to 103 blocks whose payload may reach the
// configured 15 KiB each (≈ 1.6 MB with headers). The request/response layer must deliver such an answer
// complete, and the same for a request of that size arriving at a handler (onRequest). Seed C17-11 read the
// stream through a 1 MiB LimitReader: the answer was cut, failed to decode, the honest responder was
// penalised and the request timed out. Sizes: quick 103·(15·1024+512) bytes; contents are concrete (a byte
// pattern) — the claim is about the size, every byte is compared.

const zz17BigSize = 103 * (15*1024 + 512)

func zz17Pattern(n int) []byte {
	data := make([]byte, n)
	for i := 0; i < n; i += 4096 { // a sparse pattern keeps the interpreter's work small
		data[i] = byte(i >> 12)
	}
	data[n-1] = 0x5a
	return data
}

//zz:opt loop=100000 steps=400000000 budget=300s alloc=4000000
//zz:stub time.Now zzStubNow
//zz:stub time.After zz17After
//zz:stub github.com/google/uuid.New zz17UUID
//zz:stub github.com/libp2p/go-libp2p/core/network.WithUseTransient zzStubWithUseTransient
func zzH_C17_large_response_delivered(t *zzT) {
	mp, h := zz17New(t, true, 60*time.Millisecond)
	zz17BigResponse = zz17Pattern(zz17BigSize)
	defer func() { zz17BigResponse = nil }()
	before := zzScoreOf(mp.peer.connGater, zzIP0)
	res, err := mp.sendRequestMessage(context.Background(), zzPeerID(0), "k", []byte{1})
	t.Assert(h.requests == 1, "one request was sent")
	t.Assert(err == nil && res != nil, "a response of the largest size the node serves, produced before the deadline, is returned")
	if err == nil && res != nil {
		ok := len(res.Data()) == zz17BigSize
		if ok {
			d := res.Data()
			for i := 0; i < zz17BigSize; i += 4096 {
				ok = ok && d[i] == byte(i>>12)
			}
			ok = ok && d[zz17BigSize-1] == 0x5a
		}
		t.Assert(ok, "the large response arrives complete")
	}
	t.Assert(zzScoreOf(mp.peer.connGater, zzIP0) == before, "the honest responder of a large answer is not penalised")
	t.Assert(len(mp.resCh) == 0, "no pending entry is leaked")
	t.Reach("end")
}
