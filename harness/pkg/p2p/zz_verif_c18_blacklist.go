//go:build verif

package p2p

import (
	"net"
	"sync"
	"time"

	libp2p "github.com/libp2p/go-libp2p"
	libp2pconnmgr "github.com/libp2p/go-libp2p/core/connmgr"
	"github.com/libp2p/go-libp2p/core/host"
	"github.com/libp2p/go-libp2p/core/network"
	"github.com/libp2p/go-libp2p/core/peer"
	"github.com/libp2p/go-libp2p/core/peerstore"
	"github.com/libp2p/go-libp2p/p2p/net/connmgr"
	ma "github.com/multiformats/go-multiaddr"

	"github.com/LiskHQ/lisk-engine/pkg/log"
)

// ---- C18, permanently blacklisted IPs (configuration → gater / peerbook → every gate) ----------
//
// IPs are 10.9.8.<octet> with a SYMBOLIC last octet wherever the code compares IPs: the gater keys
// its tables by net.IP.String(), the peerbook compares the configured text with extractIP(addr), so
// the decimal rendering / parsing of the octet is part of what is executed.

// zzBLAddr4 builds /ip4/<ip>/tcp/7667 from raw bytes (the octets may be symbolic).
func zzBLAddr4(ip [4]byte) ma.Multiaddr {
	zzEnv()
	a, err := ma.NewMultiaddrBytes([]byte{4, ip[0], ip[1], ip[2], ip[3], 6, 0x1d, 0xf3})
	if err != nil {
		panic("zz: bad harness multiaddr bytes: " + err.Error())
	}
	return a
}

func zzBLIP(last byte) [4]byte { return [4]byte{10, 9, 8, last} }

// zzBLStr is the text an operator writes into Config.BlacklistedIPs for that IP.
func zzBLStr(ip [4]byte) string { return net.IP{ip[0], ip[1], ip[2], ip[3]}.String() }

// zzBLAdmits runs the gates in the order libp2p consults them for ONE connection attempt
// (inbound: Accept → Secured → Upgraded; outbound: PeerDial → AddrDial → Secured → Upgraded) and
// returns whether the attempt survives all of them.
func zzBLAdmits(cg *connectionGater, addr ma.Multiaddr, inbound bool) bool {
	cma := zzConnAddrs{remote: addr}
	pid := PeerID("")
	if inbound {
		if !cg.InterceptAccept(cma) {
			return false
		}
		if !cg.InterceptSecured(network.DirInbound, pid, cma) {
			return false
		}
	} else {
		if !cg.InterceptPeerDial(pid) {
			return false
		}
		if !cg.InterceptAddrDial(pid, addr) {
			return false
		}
		if !cg.InterceptSecured(network.DirOutbound, pid, cma) {
			return false
		}
	}
	ok, _ := cg.InterceptUpgraded(&zzConn{id: pid, addr: addr})
	return ok
}

// zzBLVerdict: both directions must give the same verdict; returns it.
func zzBLVerdict(t *zzT, cg *connectionGater, addr ma.Multiaddr) bool {
	in, out := zzBLAdmits(cg, addr, true), zzBLAdmits(cg, addr, false)
	t.Assert(in == out, "inbound and outbound connection attempts get the same verdict")
	return in
}

// C18 (permanent half): an IP from Config.BlacklistedIPs is refused in both directions for EVERY
// clock value — before and after the expiry sweep of the temporary bans, and also when the same IP
// additionally collected a temporary ban that then expires. A temporary ban of another IP behaves as
// before (refused until the first sweep past its expiry, then accepted), a never-penalised IP is
// accepted throughout.
//
// Gater from newConnGater, blacklist through optionWithBlacklist (the call newPeer makes), the real
// sweep goroutine of start() driven by a harness ticker. Symbolic: blacklisted octet x, probe octet
// p (p == x allowed: the blacklisted IP itself is penalised), penalty a ∈ 0…100, start clock,
// elapsed seconds (any uint32), 1…SWEEPS sweeps. Octets range over LO…255 (quick: 100…255, i.e. a
// fixed text length — the engine forks on string lengths; thorough: 0…255).
// mirrors=cvc5 (all three harnesses): the default quick-tier mirror z3 4.8.12 needs > 1 s per
// assertion query on the octet ↔ decimal-text terms (the primary and cvc5 need milliseconds).
//
//zz:opt loop=4000
//zz:opt require=blacklisted_past_expiry,other_expired,other_still_banned,never_banned mirrors=cvc5
//zz:stub time.Now zzStubNow
//zz:stub time.NewTicker zzStubNewTicker
//zz:quick SWEEPS=1 LO=100
//zz:thorough SWEEPS=2 LO=0
func zzH_C18_blacklist_never_expires(t *zzT) {
	cg, err := newConnGater(zzNopLogger{}, expireTimeOfConnGater, time.Millisecond)
	t.Assert(err == nil && cg != nil, "newConnGater accepts the durations newPeer passes")
	t.Assert(len(cg.listBlockedAddrs()) == 0 && len(cg.listBannedPeers()) == 0 && !cg.isStarted, "a new gater blocks nobody")

	lo := byte(t.Param("LO", 100))
	x, p := t.U8("blacklisted octet"), t.U8("probe octet")
	t.Assume(x >= lo && p >= lo)
	blStr, prStr := zzBLStr(zzBLIP(x)), zzBLStr(zzBLIP(p))
	blAddr, prAddr := zzBLAddr4(zzBLIP(x)), zzBLAddr4(zzBLIP(p))
	cleanAddr, _ := zzAddrs(1) // never penalised, never blacklisted
	_, err = cg.optionWithBlacklist([]string{blStr})
	t.Assert(err == nil, "valid blacklist accepted")

	ctx := zzCtx{done: make(chan struct{})}
	wg := &sync.WaitGroup{}
	cg.start(ctx, wg)
	if t.Symbolic() {
		zzClockSec = t.I64("t0")
		t.Assume(zzClockSec >= 0 && zzClockSec < 1<<40)
	}

	a := t.Int("a")
	t.Assume(a >= 0 && a <= MaxPenaltyScore)
	got, err := cg.addPenalty(prAddr, a)
	t.Assert(err == nil && got == a, "penalty accepted")
	tempBanned := a >= MaxPenaltyScore
	same := p == x
	t.Assert(!zzBLVerdict(t, cg, blAddr), "permanently blacklisted IP refused (before the sweep)")

	// time passes, the sweep runs
	ttl := int64(expireTimeOfConnGater.Seconds())
	elapsed := int64(t.U32("elapsed"))
	if t.Symbolic() {
		zzClockSec += elapsed
	} else {
		if elapsed > ttl-3 && elapsed <= ttl {
			elapsed = ttl - 3
		} else if elapsed > ttl && elapsed < ttl+3 {
			elapsed = ttl + 3
		}
		cg.mutex.Lock()
		if info, ok := cg.peerScore[prStr]; ok && info.expiration != -1 {
			info.expiration -= elapsed
		}
		cg.mutex.Unlock()
	}
	// (Choice, not Range: a counterexample found before this point leaves the variable at 0 natively)
	sweeps := 1 + t.Choice("extra sweeps", t.Param("SWEEPS", 1))
	for i := 0; i < sweeps; i++ {
		zzTick(t)
	}
	close(ctx.done)
	wg.Wait()
	expired := elapsed > ttl

	t.Assert(!zzBLVerdict(t, cg, blAddr), "permanently blacklisted IP refused for every clock value (after the expiry sweep)")
	t.Assert(zzBLVerdict(t, cg, prAddr) == (!same && (!tempBanned || expired)),
		"probe IP accepted ⇔ not blacklisted ∧ (never banned ∨ its temporary ban expired)")
	t.Assert(zzBLVerdict(t, cg, cleanAddr), "an IP that is neither blacklisted nor penalised is accepted")
	listed := cg.listBlockedAddrs()
	t.Assert(len(listed) == 1 && listed[0].String() == blStr, "the sweep leaves the blacklist untouched")

	// a temporary ban of the blacklisted IP itself expires like any other (clean score afterwards),
	// but the IP stays refused
	s := t.Int("s")
	t.Assume(s >= 0 && s < MaxPenaltyScore)
	got2, err := cg.addPenalty(prAddr, s)
	want2 := a + s
	if tempBanned && expired {
		want2 = s
	}
	t.Assert(err == nil && got2 == want2, "score is clean after an expired ban, kept otherwise")
	t.Assert(!zzGatesAgree(t, cg, blAddr), "every address gate refuses the permanently blacklisted IP (after a later penalty)")

	switch {
	case same && tempBanned && expired:
		t.Reach("blacklisted_past_expiry")
	case !same && tempBanned && expired:
		t.Assert(zzBLVerdict(t, cg, prAddr), "sub-threshold penalty after expiry does not re-ban")
		t.Reach("other_expired")
	case !same && tempBanned:
		t.Reach("other_still_banned")
	case !same:
		t.Reach("never_banned")
	}
	t.ObserveBool("expired", expired)
}

// C18 (blacklist = configuration, unblock): newConnGater rejects non-positive durations (a zero
// expiry would make every ban void); the set listBlockedAddrs reports is exactly the set of IPs
// given to optionWithBlacklist — three entries: 10.9.8.b0, 10.9.8.b1 (b0 == b1 allowed: duplicate)
// and an IPv6 entry; every configured IP and only those are refused (probe octet p symbolic);
// unblockAddr of one entry re-admits exactly that IP and leaves the others blocked.
//
//zz:opt loop=4000
//zz:opt require=invalid_durations,duplicate_entries,distinct_entries mirrors=cvc5
//zz:stub time.Now zzStubNow
//zz:quick LO=100
//zz:thorough LO=0
func zzH_C18_blacklist_listing_unblock(t *zzT) {
	d1, d2 := time.Duration(t.I64("expiration")), time.Duration(t.I64("interval"))
	cg, err := newConnGater(zzNopLogger{}, d1, d2)
	if d1 <= 0 || d2 <= 0 {
		t.Assert(err != nil && cg == nil, "newConnGater rejects a non-positive expiration / interval")
		t.Reach("invalid_durations")
		return
	}
	t.Assert(err == nil && cg != nil, "newConnGater accepts positive durations")
	t.Assert(cg.expiration == d1 && cg.intervalCheck == d2, "newConnGater keeps the durations it was given")

	lo := byte(t.Param("LO", 100))
	b0, b1, p := t.U8("b0"), t.U8("b1"), t.U8("p")
	t.Assume(b0 >= lo && b1 >= lo && p >= lo)
	v6bare, _ := zzAddrs(1)
	entries := [3]string{zzBLStr(zzBLIP(b0)), zzBLStr(zzBLIP(b1)), zzIP1}
	addrs := [3]ma.Multiaddr{zzBLAddr4(zzBLIP(b0)), zzBLAddr4(zzBLIP(b1)), v6bare}
	prAddr := zzBLAddr4(zzBLIP(p))
	dup := b0 == b1
	distinct := 3
	if dup {
		distinct = 2
	}

	_, err = cg.optionWithBlacklist(entries[:])
	t.Assert(err == nil, "valid blacklist accepted")

	check := func(removed int, stage string) {
		listed := cg.listBlockedAddrs()
		want := distinct
		if removed >= 0 {
			want--
		}
		t.Assert(len(listed) == want, "listBlockedAddrs has one element per distinct blocked IP "+stage)
		for i := 0; i < 3; i++ {
			gone := removed >= 0 && entries[i] == entries[removed]
			found := false
			for _, ip := range listed {
				if ip != nil && ip.String() == entries[i] {
					found = true
				}
			}
			t.Assert(found == !gone, "listBlockedAddrs reports every blocked entry (none lost) and no unblocked one "+stage)
			t.Assert(zzBLVerdict(t, cg, addrs[i]) == gone, "every blocked entry is refused in both directions "+stage)
		}
		for _, ip := range listed {
			known := false
			for i := 0; i < 3; i++ {
				if ip != nil && ip.String() == entries[i] {
					known = true
				}
			}
			t.Assert(known, "listBlockedAddrs reports nothing that was not configured "+stage)
		}
		blocked := (p == b0 && !(removed >= 0 && entries[removed] == entries[0])) ||
			(p == b1 && !(removed >= 0 && entries[removed] == entries[1]))
		t.Assert(zzGatesAgree(t, cg, prAddr) == !blocked, "an IP is refused ⇔ it is a blocked entry "+stage)
	}
	check(-1, "(as configured)")
	ok, reason := cg.InterceptUpgraded(&zzConn{addr: prAddr})
	t.Assert(ok && reason == 0, "InterceptUpgraded never refuses (filtering happened at the earlier gates)")

	k := t.Choice("unblock", 3)
	cg.unblockAddr(net.ParseIP(entries[k]))
	check(k, "(after unblockAddr)")

	if dup {
		t.Reach("duplicate_entries")
	} else {
		t.Reach("distinct_entries")
	}
}

// ---- newPeer with the libp2p host replaced (engine only) ---------------------------------------

// zzBLPeerstore: the three Peerstore methods Peer.BlacklistedPeers / harness use.
type zzBLPeerstore struct {
	peerstore.Peerstore
	ids   peer.IDSlice
	addrs map[peer.ID][]ma.Multiaddr
}

func (ps *zzBLPeerstore) AddAddrs(p peer.ID, addrs []ma.Multiaddr, ttl time.Duration) {
	if _, ok := ps.addrs[p]; !ok {
		ps.ids = append(ps.ids, p)
	}
	ps.addrs[p] = append(ps.addrs[p], addrs...)
}
func (ps *zzBLPeerstore) Peers() peer.IDSlice { return ps.ids }
func (ps *zzBLPeerstore) PeerInfo(p peer.ID) peer.AddrInfo {
	return peer.AddrInfo{ID: p, Addrs: ps.addrs[p]}
}

type zzBLHost struct {
	*zzHost
	ps *zzBLPeerstore
}

func (h *zzBLHost) Peerstore() peerstore.Peerstore { return h.ps }
func (h *zzBLHost) Close() error                   { return nil }

// Under the engine libp2p.New is redirected here: the options newPeer assembled are applied to an
// empty libp2p configuration (which is what libp2p.New does first), the result is kept for the
// harness, and a fake host is returned. Natively the real libp2p.New builds a real host.
var zzBLLibp2pCfg *libp2p.Config

func zzBLStubLibp2pNew(opts ...libp2p.Option) (host.Host, error) {
	cfg := &libp2p.Config{}
	for _, o := range opts {
		if o == nil { // package-level option variables of libp2p (its initialiser is not interpreted)
			continue
		}
		if err := o(cfg); err != nil {
			return nil, err
		}
	}
	zzBLLibp2pCfg = cfg
	return &zzBLHost{zzHost: &zzHost{net: &zzNet{}}, ps: &zzBLPeerstore{addrs: map[peer.ID][]ma.Multiaddr{}}}, nil
}

func zzBLStubNewConnManager(low, hi int, opts ...connmgr.Option) (*connmgr.BasicConnMgr, error) {
	return nil, nil
}

// zzBLLogger counts Errorf calls (peerbook.init reports blacklisted seed / fixed peers that way).
type zzBLLogger struct {
	zzNopLogger
	errs *int
}

func (l zzBLLogger) Errorf(string, ...interface{})  { *l.errs++ }
func (l zzBLLogger) With(...interface{}) log.Logger { return l }

const zzPID2 = "12D3KooWNLGFBbaLyFtMzXAPmD7xL63xjXoC4Bg1cW8zoD8jJdXF"

// C18 (configuration path): Config.BlacklistedIPs → newPeer → gater + peerbook, then
// peerbook.init as Connection.Start calls it. Configuration: seed peer zzPID0 at 10.9.8.7, fixed
// peer zzPID1 at the IPv6 address, blacklist = [10.9.8.b0 (symbolic; b0 == 7 is the seed peer's IP),
// the fixed peer's IPv6 address, optionally 10.9.8.b0 once more].
// Asserted: the gater libp2p receives is the peer's gater and it blocks exactly the configured IPs
// (listBlockedAddrs), each of them is refused in both directions — a blacklisted IP is refused also
// when it is a seed / fixed peer (the code only logs that; the property knows no exemption); the
// peerbook reports exactly the configured list; Peer.BlacklistedPeers lists exactly the known peers
// whose IP is blacklisted or temporarily banned (probe peer zzPID2 at 10.9.8.p, penalty a).
//
//zz:opt loop=4000
//zz:opt require=end,seed_blacklisted,probe_blacklisted,probe_banned,probe_clean mirrors=cvc5
//zz:stub time.Now zzStubNow
//zz:stub time.NewTicker zzStubNewTicker
//zz:stub github.com/libp2p/go-libp2p.New zzBLStubLibp2pNew
//zz:stub github.com/libp2p/go-libp2p/p2p/net/connmgr.NewConnManager zzBLStubNewConnManager
func zzH_C18_blacklist_config_newpeer(t *zzT) {
	zzEnv()
	b0, p := t.U8("b0"), t.U8("p")
	e0 := zzBLStr(zzBLIP(b0))
	prStr := zzBLStr(zzBLIP(p))
	bl := []string{e0, zzIP1}
	if t.Bool("duplicate entry") {
		bl = append(bl, e0)
	}
	cfg := &Config{
		SeedPeers:      []string{zzBase0 + "/p2p/" + zzPID0},
		FixedPeers:     []string{zzBase1 + "/p2p/" + zzPID1},
		BlacklistedIPs: bl,
	}
	t.Assert(cfg.insertDefault() == nil, "configuration accepted")

	errs := 0
	logger := zzBLLogger{errs: &errs}
	ctx := zzCtx{done: make(chan struct{})}
	wg := &sync.WaitGroup{}
	if t.Symbolic() {
		zzClockSec = 1_700_000_000
	}
	pr, err := newPeer(ctx, wg, logger, nil, cfg)
	t.Assert(err == nil && pr != nil, "newPeer succeeds with a valid blacklist")
	pr.peerbook.init(logger) // Connection.Start
	cg := pr.connGater
	if t.Symbolic() {
		t.Assert(zzBLLibp2pCfg != nil && zzBLLibp2pCfg.ConnectionGater == libp2pconnmgr.ConnectionGater(cg),
			"the gater handed to libp2p is the peer's gater")
	}
	t.Assert(cg.isStarted, "newPeer starts the gater")

	// the gater blocks exactly the configured IPs
	seedIP := b0 == 7
	listed := cg.listBlockedAddrs()
	t.Assert(len(listed) == 2, "one blocked IP per distinct configured entry")
	for _, e := range bl {
		found := false
		for _, ip := range listed {
			if ip != nil && ip.String() == e {
				found = true
			}
		}
		t.Assert(found, "every configured blacklist entry is blocked by the gater (none lost)")
	}
	blAddr := zzBLAddr4(zzBLIP(b0))
	prAddr := zzBLAddr4(zzBLIP(p))
	seedBare, _ := zzAddrs(0)
	fixedBare, fixedFull := zzAddrs(1)
	t.Assert(!zzBLVerdict(t, cg, blAddr), "configured blacklisted IP refused in both directions")
	t.Assert(!zzBLVerdict(t, cg, fixedBare) && !zzBLVerdict(t, cg, fixedFull), "blacklisted IP refused although it is a fixed peer")
	t.Assert(zzBLVerdict(t, cg, seedBare) == !seedIP, "seed peer's IP refused ⇔ it is blacklisted")

	// the peerbook reports exactly the configured list
	pbl := pr.peerbook.PermanentlyBlacklistedIPs()
	same := len(pbl) == len(bl)
	for i := 0; same && i < len(bl); i++ {
		same = pbl[i] == bl[i]
	}
	t.Assert(same, "peerbook.PermanentlyBlacklistedIPs is the configured list")
	t.Assert(pr.peerbook.isIPPermanentlyBlacklisted(prStr) == (p == b0), "isIPPermanentlyBlacklisted(ip) ⇔ ip is a configured entry")
	t.Assert(pr.peerbook.isIPPermanentlyBlacklisted(zzIP1) && !pr.peerbook.isIPPermanentlyBlacklisted("10.9.9.9"), "isIPPermanentlyBlacklisted on the fixed entries")
	t.Assert(pr.peerbook.isIPInSeedPeers(e0) == seedIP && pr.peerbook.isIPInFixedPeers(zzIP1) && !pr.peerbook.isIPInFixedPeers(e0) && !pr.peerbook.isIPInSeedPeers(zzIP1),
		"isIPInSeedPeers / isIPInFixedPeers compare the IP of the configured addresses")
	t.ObserveU64("conflicts reported by peerbook.init", uint64(errs))
	// isInSeedPeers / isInFixedPeers (no caller in /repo besides the unit tests) compare the TEXT of the
	// configured ID with the argument: observed, not demanded — a decoded peer.ID is never found.
	t.ObserveBool("isInFixedPeers(text of the id)", pr.peerbook.isInFixedPeers(PeerID(zzPID1)))
	t.ObserveBool("isInFixedPeers(decoded id)", pr.peerbook.isInFixedPeers(zzPeerID(1)))
	t.ObserveBool("isInSeedPeers(text of the id)", pr.peerbook.isInSeedPeers(PeerID(zzPID0)))
	t.ObserveBool("isInSeedPeers(decoded id)", pr.peerbook.isInSeedPeers(zzPeerID(0)))

	// known peers: the seed peer, the fixed peer and a third peer at the probe IP, which collects a
	// penalty a
	ids := [3]peer.ID{zzPeerID(0), zzPeerID(1), ""}
	id2, derr := peer.Decode(zzPID2)
	t.Assert(derr == nil, "harness peer id valid")
	ids[2] = id2
	ps := pr.host.Peerstore()
	ps.AddAddrs(ids[0], []ma.Multiaddr{seedBare}, peerstore.PermanentAddrTTL)
	ps.AddAddrs(ids[1], []ma.Multiaddr{fixedBare}, peerstore.PermanentAddrTTL)
	ps.AddAddrs(ids[2], []ma.Multiaddr{prAddr}, peerstore.PermanentAddrTTL)
	a := t.Int("a")
	t.Assume(a >= 0 && a <= MaxPenaltyScore)
	_, err = cg.addPenalty(prAddr, a)
	t.Assert(err == nil, "penalty accepted")
	banned := a >= MaxPenaltyScore
	want := [3]bool{
		seedIP || (p == 7 && banned),
		true,
		p == b0 || banned,
	}
	t.Assert(zzBLVerdict(t, cg, prAddr) == !want[2], "probe IP refused ⇔ blacklisted ∨ temporarily banned")
	var cnt [3]int
	foreign := 0
	for _, ai := range pr.BlacklistedPeers() {
		hit := false
		for i := 0; i < 3; i++ {
			if ai.ID == ids[i] {
				cnt[i]++
				hit = true
			}
		}
		if !hit {
			foreign++
		}
	}
	for i := 0; i < 3; i++ {
		t.Assert((cnt[i] > 0) == want[i], "BlacklistedPeers lists a known peer ⇔ its IP is blacklisted or temporarily banned")
		t.Assert(cnt[i] <= 1, "BlacklistedPeers lists a peer at most once")
	}
	t.Assert(foreign == 0, "BlacklistedPeers lists only known peers")

	close(ctx.done)
	wg.Wait()
	t.Assert(pr.close() == nil, "peer closes")

	if seedIP {
		t.Reach("seed_blacklisted")
	}
	switch {
	case p == b0:
		t.Reach("probe_blacklisted")
	case banned:
		t.Reach("probe_banned")
	default:
		t.Reach("probe_clean")
	}
	t.Reach("end")
}
