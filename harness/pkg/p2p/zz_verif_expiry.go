//go:build verif

package p2p

import (
	"sync"
	"time"
)

// ---- ticker / context fakes for the sweep goroutine of connectionGater.start -------------------

// Under the engine time.NewTicker is redirected here: the ticker channel is an unbuffered harness
// channel, so "the ticker fires" is an explicit event the harness produces (zzTick). Natively the
// real ticker runs with a 1 ms interval and zzTick just waits long enough for several sweeps.
var zzTickCh chan time.Time

func zzStubNewTicker(d time.Duration) *time.Ticker {
	if zzTickCh == nil { // a harness whose ticker is created inside the goroutine pre-creates the channel
		zzTickCh = make(chan time.Time)
	}
	return &time.Ticker{C: zzTickCh}
}

func zzStubTickerReset(tk *time.Ticker, d time.Duration) {}

func zzTick(t *zzT) {
	if t.Symbolic() {
		zzTickCh <- time.Time{}
		return
	}
	time.Sleep(40 * time.Millisecond)
}

// zzCtx is a minimal context.Context whose Done channel the harness closes.
type zzCtx struct{ done chan struct{} }

func (c zzCtx) Deadline() (time.Time, bool)       { return time.Time{}, false }
func (c zzCtx) Done() <-chan struct{}             { return c.done }
func (c zzCtx) Err() error                        { return nil }
func (c zzCtx) Value(key interface{}) interface{} { return nil }

// C18.b: the expiry sweep. A banned IP stays refused while now ≤ expiration and is accepted again,
// with a clean score, after the first sweep that runs at now > expiration (stated tolerance: at the
// first sweep after expiry, not at expiry itself). A sub-threshold score is not touched by the sweep.
//
// The real goroutine of connectionGater.start is driven: ticker = harness channel, ctx = harness
// context; one tick, then cancel and join, so exactly one sweep body runs.
// "elapsed" seconds pass between the ban and the sweep: under the engine the stubbed clock advances;
// natively (real clock) the entry's expiration is moved back by the same amount.
//
//zz:opt loop=4000 sched=1 mapperm=1
//zz:opt require=expired,not_expired
//zz:stub time.Now zzStubNow
//zz:stub time.NewTicker zzStubNewTicker
func zzH_C18_gater_expiry_sweep(t *zzT) {
	cg := zzNewGater()
	cg.isStarted = false
	cg.intervalCheck = time.Millisecond
	ctx := zzCtx{done: make(chan struct{})}
	wg := &sync.WaitGroup{}
	cg.start(ctx, wg)
	t.Assert(cg.isStarted, "start marks the gater started")

	bare0, full0 := zzAddrs(0)
	_, full1 := zzAddrs(1)
	if t.Symbolic() {
		zzClockSec = t.I64("t0")
		t.Assume(zzClockSec >= 0 && zzClockSec < 1<<40)
	}

	// identity 0 is banned (two penalties reaching the threshold), identity 1 collects s1 < threshold
	a, b := t.Int("a"), t.Int("b")
	t.Assume(a >= 0 && a <= MaxPenaltyScore && b >= 0 && b <= MaxPenaltyScore && a+b >= MaxPenaltyScore)
	s1 := t.Int("s1")
	t.Assume(s1 >= 0 && s1 < MaxPenaltyScore)
	_, err := cg.addPenalty(full0, a)
	t.Assert(err == nil, "penalty accepted")
	_, err = cg.addPenalty(full1, s1)
	t.Assert(err == nil, "penalty accepted")
	_, err = cg.addPenalty(bare0, b)
	t.Assert(err == nil, "penalty accepted")
	t.Assert(!zzGatesAgree(t, cg, full0), "banned IP refused before the sweep")

	// time passes
	ttl := int64(expireTimeOfConnGater.Seconds())
	elapsed := int64(t.U32("elapsed"))
	t.Assume(elapsed <= 4*ttl)
	if t.Symbolic() {
		zzClockSec += elapsed
	} else {
		// the real clock may advance by a second or two during the replay: keep a margin around the
		// boundary (the boundary itself is decided symbolically)
		if elapsed > ttl-3 && elapsed <= ttl {
			elapsed = ttl - 3
		} else if elapsed > ttl && elapsed < ttl+3 {
			elapsed = ttl + 3
		}
		cg.mutex.Lock()
		cg.peerScore[zzIP0].expiration -= elapsed
		cg.mutex.Unlock()
	}

	// one sweep, then stop the goroutine and wait for it
	zzTick(t)
	close(ctx.done)
	wg.Wait()

	expired := elapsed > ttl
	s := t.Int("s")
	t.Assume(s >= 0 && s < MaxPenaltyScore)
	if expired {
		t.Assert(zzGatesAgree(t, cg, full0) && zzGatesAgree(t, cg, bare0), "accepted again after the first sweep past expiry")
		_, still := cg.peerScore[zzIP0]
		t.Assert(!still, "expired entry removed")
		got, err := cg.addPenalty(full0, s)
		t.Assert(err == nil && got == s, "clean score after expiry")
		t.Assert(zzGatesAgree(t, cg, full0), "a sub-threshold penalty after expiry does not re-ban")
		t.Reach("expired")
	} else {
		t.Assert(!zzGatesAgree(t, cg, full0) && !zzGatesAgree(t, cg, bare0), "still refused while now ≤ expiration")
		got, err := cg.addPenalty(full0, s)
		t.Assert(err == nil && got == a+b+s, "score kept while banned")
		t.Reach("not_expired")
	}
	// the sub-threshold identity is untouched by the sweep
	got1, err := cg.addPenalty(full1, 0)
	t.Assert(err == nil && got1 == s1, "sub-threshold score survives the sweep (no decay, no reset)")
	t.Assert(zzGatesAgree(t, cg, full1), "sub-threshold identity still accepted")
	t.ObserveBool("expired", expired)
}
