//go:build verif

package statemachine

import (
	"bytes"
	"context"
	"errors"

	"github.com/LiskHQ/lisk-engine/pkg/blockchain"
	"github.com/LiskHQ/lisk-engine/pkg/db"
	"github.com/LiskHQ/lisk-engine/pkg/db/diffdb"
	"github.com/LiskHQ/lisk-engine/pkg/log"
)

type zzsLogger struct{}

func (zzsLogger) Debug(msg string, others ...interface{})    {}
func (zzsLogger) Info(msg string, others ...interface{})     {}
func (zzsLogger) Error(msg string, others ...interface{})    {}
func (zzsLogger) Debugf(msg string, others ...interface{})   {}
func (zzsLogger) Infof(msg string, others ...interface{})    {}
func (zzsLogger) Errorf(msg string, others ...interface{})   {}
func (zzsLogger) Warning(msg string, others ...interface{})  {}
func (zzsLogger) Warningf(msg string, others ...interface{}) {}
func (l zzsLogger) With(kv ...interface{}) log.Logger        { return l }

// in-memory backing store for the state diffdb
type zzsKV struct{ k, v []byte }

func (kv *zzsKV) Key() []byte   { return kv.k }
func (kv *zzsKV) Value() []byte { return kv.v }

type zzsStore struct{ kvs []*zzsKV }

func (s *zzsStore) Get(key []byte) ([]byte, bool) {
	for _, kv := range s.kvs {
		if bytes.Equal(kv.k, key) {
			return kv.v, true
		}
	}
	return nil, false
}
func (s *zzsStore) Iterate(prefix []byte, limit int, reverse bool) []db.KeyValue {
	out := []db.KeyValue{}
	for _, kv := range s.kvs {
		if bytes.HasPrefix(kv.k, prefix) {
			out = append(out, kv)
		}
	}
	return out
}
func (s *zzsStore) IterateRange(start, end []byte, limit int, reverse bool) []db.KeyValue {
	out := []db.KeyValue{}
	for _, kv := range s.kvs {
		if bytes.Compare(kv.k, start) >= 0 && bytes.Compare(kv.k, end) <= 0 {
			out = append(out, kv)
		}
	}
	return out
}

// scripted command: performs a symbolic script of Set/Del on two module stores, emits an event,
// then succeeds or fails.
type zzsOp struct {
	store int
	del   bool
	key   byte
	val   byte
}

type zzsCommand struct {
	ops  []zzsOp
	fail bool
}

var zzsErr = errors.New("zzs: command failed")

func (c *zzsCommand) ID() uint32   { return 1 }
func (c *zzsCommand) Name() string { return "cmd" }
func (c *zzsCommand) Verify(ctx *TransactionVerifyContext) VerifyResult {
	return NewVerifyResultOK()
}
func (c *zzsCommand) Execute(ctx *TransactionExecuteContext) error {
	for _, op := range c.ops {
		st := ctx.GetStore([]byte{0, 0, 0, byte(1 + op.store)}, []byte{0, 0})
		if op.del {
			st.Del([]byte{op.key})
		} else {
			st.Set([]byte{op.key}, []byte{op.val})
		}
	}
	_ = ctx.EventQueue().Add("mod", "custom", []byte{1}, nil)
	if c.fail {
		return zzsErr
	}
	return nil
}

type zzsModule struct{ cmd *zzsCommand }

func (m *zzsModule) Name() string                                                       { return "mod" }
func (m *zzsModule) InitGenesisState(ctx *GenesisBlockProcessingContext) error          { return nil }
func (m *zzsModule) FinalizeGenesisState(ctx *GenesisBlockProcessingContext) error      { return nil }
func (m *zzsModule) InsertAssets(ctx *InsertAssetsContext) error                        { return nil }
func (m *zzsModule) VerifyAssets(ctx *VerifyAssetsContext) error                        { return nil }
func (m *zzsModule) VerifyTransaction(ctx *TransactionVerifyContext) VerifyResult       { return NewVerifyResultOK() }
func (m *zzsModule) BeforeTransactionsExecute(ctx *BeforeTransactionsExecuteContext) error { return nil }
func (m *zzsModule) AfterTransactionsExecute(ctx *AfterTransactionsExecuteContext) error   { return nil }
func (m *zzsModule) BeforeCommandExecute(ctx *TransactionExecuteContext) error          { return nil }
func (m *zzsModule) AfterCommandExecute(ctx *TransactionExecuteContext) error           { return nil }
func (m *zzsModule) GetCommand(name string) (Command, bool) {
	if name == "cmd" {
		return m.cmd, true
	}
	return nil, false
}

// C16.b: a failing command leaves the staged state exactly as it was before the command (seen through
// every module store) and only the standard event with success=false is logged; a succeeding command
// keeps its writes and logs its own event plus the standard event with success=true.
//
//zz:opt loop=80
//zz:quick OPS=2
//zz:thorough OPS=3
func zzH_C16_command_atomic(t *zzT) {
	nops := t.Range("ops", 0, t.Param("OPS", 2))
	// pre-state: each module store holds key 0 -> 9 in the backing store; one staged earlier write
	backing := &zzsStore{}
	for s := 0; s < 2; s++ {
		backing.kvs = append(backing.kvs, &zzsKV{k: append(ModuleStorePrefix([]byte{0, 0, 0, byte(1 + s)}, []byte{0, 0}), 0), v: []byte{9}})
	}
	state := diffdb.New(backing, []byte{})
	early := state.WithPrefix(ModuleStorePrefix([]byte{0, 0, 0, 1}, []byte{0, 0}))
	early.Set([]byte{1}, []byte{t.U8("early")}) // staged by an earlier transaction of the block
	cmd := &zzsCommand{fail: t.Bool("fail")}
	for i := 0; i < nops; i++ {
		k := t.U8(t.Name("key", i))
		t.Assume(k < 3)
		cmd.ops = append(cmd.ops, zzsOp{store: int(t.U8(t.Name("store", i)) % 2), del: t.Bool(t.Name("del", i)), key: k, val: t.U8(t.Name("val", i))})
	}
	read := func() [2][3][2]byte { // [store][key] -> (exists, value)
		var r [2][3][2]byte
		for s := 0; s < 2; s++ {
			v := state.WithPrefix(ModuleStorePrefix([]byte{0, 0, 0, byte(1 + s)}, []byte{0, 0}))
			for k := 0; k < 3; k++ {
				val, ok := v.Get([]byte{byte(k)})
				if ok {
					r[s][k] = [2]byte{1, val[0]}
				}
			}
		}
		return r
	}
	before := read()
	ex := NewExecuter()
	ex.Init(zzsLogger{})
	ex.modules = append(ex.modules, &zzsModule{cmd: cmd})
	events := NewEventLogger(7)
	tx := &blockchain.Transaction{Module: "mod", Command: "cmd", SenderPublicKey: bytes.Repeat([]byte{1}, 32), Params: []byte{}}
	tx.Init()
	ctx := NewTransactionExecuteContext(context.Background(), zzsLogger{}, []byte{0, 0, 0, 1}, state, events,
		&blockchain.BlockHeader{Height: 7}, nil, nil, false, 0, tx)
	res := ex.ExecuteTransaction(ctx)
	after := read()
	evs := events.Events()
	if cmd.fail {
		t.Assert(after == before, "failed command: staged state equals the state before the command, through every store")
		t.Assert(len(evs) == 1 && evs[0].Name == blockchain.EventNameDefault, "failed command: only the standard event remains")
		t.Assert(res.Code() == 0, "failed command reports failure (not invalid)")
		t.Reach("failed")
		return
	}
	// reference: apply the script to the pre-state
	want := before
	for _, op := range cmd.ops {
		if op.del {
			want[op.store][op.key] = [2]byte{}
		} else {
			want[op.store][op.key] = [2]byte{1, op.val}
		}
	}
	t.Assert(after == want, "successful command: its writes are kept")
	t.Assert(len(evs) == 2 && evs[1].Name == blockchain.EventNameDefault, "successful command: its event and the standard event are logged")
	t.Assert(res.Code() == 1, "successful command reports success")
	t.Reach("succeeded")
}
