//go:build verif

package statemachine

import (
	"bytes"
	"context"
	"errors"

	"github.com/LiskHQ/lisk-engine/pkg/blockchain"
	"github.com/LiskHQ/lisk-engine/pkg/db"
	"github.com/LiskHQ/lisk-engine/pkg/db/diffdb"
	"github.com/LiskHQ/lisk-engine/pkg/log"
)

type zzsLogger struct{}

func (zzsLogger) Debug(msg string, others ...interface{})    {}
func (zzsLogger) Info(msg string, others ...interface{})     {}
func (zzsLogger) Error(msg string, others ...interface{})    {}
func (zzsLogger) Debugf(msg string, others ...interface{})   {}
func (zzsLogger) Infof(msg string, others ...interface{})    {}
func (zzsLogger) Errorf(msg string, others ...interface{})   {}
func (zzsLogger) Warning(msg string, others ...interface{})  {}
func (zzsLogger) Warningf(msg string, others ...interface{}) {}
func (l zzsLogger) With(kv ...interface{}) log.Logger        { return l }

// in-memory backing store for the state diffdb
type zzsKV struct{ k, v []byte }

func (kv *zzsKV) Key() []byte   { return kv.k }
func (kv *zzsKV) Value() []byte { return kv.v }

type zzsStore struct{ kvs []*zzsKV }

func (s *zzsStore) Get(key []byte) ([]byte, bool) {
	for _, kv := range s.kvs {
		if bytes.Equal(kv.k, key) {
			return kv.v, true
		}
	}
	return nil, false
}
func (s *zzsStore) Iterate(prefix []byte, limit int, reverse bool) []db.KeyValue {
	out := []db.KeyValue{}
	for _, kv := range s.kvs {
		if bytes.HasPrefix(kv.k, prefix) {
			out = append(out, kv)
		}
	}
	return out
}
func (s *zzsStore) IterateRange(start, end []byte, limit int, reverse bool) []db.KeyValue {
	out := []db.KeyValue{}
	for _, kv := range s.kvs {
		if bytes.Compare(kv.k, start) >= 0 && bytes.Compare(kv.k, end) <= 0 {
			out = append(out, kv)
		}
	}
	return out
}

// scripted command: performs a symbolic script of Set/Del on two module stores, emits an event,
// then succeeds or fails.
type zzsOp struct {
	store int
	del   bool
	key   byte
	val   byte
}

type zzsCommand struct {
	ops  []zzsOp
	fail bool
	// checkpointAt >= 0: the command takes a checkpoint of its own (ctx.Snapshot(), never restored by it)
	// before operation number checkpointAt (len(ops) = after the last one)
	checkpointAt int
	useCheckpoint bool
}

var zzsErr = errors.New("zzs: command failed")

func (c *zzsCommand) ID() uint32   { return 1 }
func (c *zzsCommand) Name() string { return "cmd" }
func (c *zzsCommand) Verify(ctx *TransactionVerifyContext) VerifyResult {
	return NewVerifyResultOK()
}
func (c *zzsCommand) Execute(ctx *TransactionExecuteContext) error {
	for i, op := range c.ops {
		if c.useCheckpoint && c.checkpointAt == i {
			_ = ctx.Snapshot()
		}
		st := ctx.GetStore([]byte{0, 0, 0, byte(1 + op.store)}, []byte{0, 0})
		if op.del {
			st.Del([]byte{op.key})
		} else {
			st.Set([]byte{op.key}, []byte{op.val})
		}
	}
	if c.useCheckpoint && c.checkpointAt >= len(c.ops) {
		_ = ctx.Snapshot()
	}
	_ = ctx.EventQueue().Add("mod", "custom", []byte{1}, nil)
	if c.fail {
		return zzsErr
	}
	return nil
}

type zzsModule struct{ cmd *zzsCommand }

func (m *zzsModule) Name() string                                                       { return "mod" }
func (m *zzsModule) InitGenesisState(ctx *GenesisBlockProcessingContext) error          { return nil }
func (m *zzsModule) FinalizeGenesisState(ctx *GenesisBlockProcessingContext) error      { return nil }
func (m *zzsModule) InsertAssets(ctx *InsertAssetsContext) error                        { return nil }
func (m *zzsModule) VerifyAssets(ctx *VerifyAssetsContext) error                        { return nil }
func (m *zzsModule) VerifyTransaction(ctx *TransactionVerifyContext) VerifyResult       { return NewVerifyResultOK() }
func (m *zzsModule) BeforeTransactionsExecute(ctx *BeforeTransactionsExecuteContext) error { return nil }
func (m *zzsModule) AfterTransactionsExecute(ctx *AfterTransactionsExecuteContext) error   { return nil }
func (m *zzsModule) BeforeCommandExecute(ctx *TransactionExecuteContext) error          { return nil }
func (m *zzsModule) AfterCommandExecute(ctx *TransactionExecuteContext) error           { return nil }
func (m *zzsModule) GetCommand(name string) (Command, bool) {
	if name == "cmd" {
		return m.cmd, true
	}
	return nil, false
}

// C16.b: a failing command leaves the staged state exactly as it was before the command (seen through
// every module store) and only the standard event with success=false is logged; a succeeding command
// keeps its writes and logs its own event plus the standard event with success=true.
//
//zz:opt loop=80
//zz:quick OPS=2
//zz:thorough OPS=3
func zzH_C16_command_atomic(t *zzT) {
	nops := t.Range("ops", 0, t.Param("OPS", 2))
	// pre-state: each module store holds key 0 -> 9 in the backing store; one staged earlier write
	backing := &zzsStore{}
	for s := 0; s < 2; s++ {
		backing.kvs = append(backing.kvs, &zzsKV{k: append(ModuleStorePrefix([]byte{0, 0, 0, byte(1 + s)}, []byte{0, 0}), 0), v: []byte{9}})
	}
	state := diffdb.New(backing, []byte{})
	early := state.WithPrefix(ModuleStorePrefix([]byte{0, 0, 0, 1}, []byte{0, 0}))
	early.Set([]byte{1}, []byte{t.U8("early")}) // staged by an earlier transaction of the block
	cmd := &zzsCommand{fail: t.Bool("fail")}
	for i := 0; i < nops; i++ {
		k := t.U8(t.Name("key", i))
		t.Assume(k < 3)
		cmd.ops = append(cmd.ops, zzsOp{store: int(t.U8(t.Name("store", i)) % 2), del: t.Bool(t.Name("del", i)), key: k, val: t.U8(t.Name("val", i))})
	}
	read := func() [2][3][2]byte { // [store][key] -> (exists, value)
		var r [2][3][2]byte
		for s := 0; s < 2; s++ {
			v := state.WithPrefix(ModuleStorePrefix([]byte{0, 0, 0, byte(1 + s)}, []byte{0, 0}))
			for k := 0; k < 3; k++ {
				val, ok := v.Get([]byte{byte(k)})
				if ok {
					r[s][k] = [2]byte{1, val[0]}
				}
			}
		}
		return r
	}
	before := read()
	ex := NewExecuter()
	ex.Init(zzsLogger{})
	ex.modules = append(ex.modules, &zzsModule{cmd: cmd})
	events := NewEventLogger(7)
	tx := &blockchain.Transaction{Module: "mod", Command: "cmd", SenderPublicKey: bytes.Repeat([]byte{1}, 32), Params: []byte{}}
	tx.Init()
	ctx := NewTransactionExecuteContext(context.Background(), zzsLogger{}, []byte{0, 0, 0, 1}, state, events,
		&blockchain.BlockHeader{Height: 7}, nil, nil, false, 0, tx)
	res := ex.ExecuteTransaction(ctx)
	after := read()
	evs := events.Events()
	if cmd.fail {
		t.Assert(after == before, "failed command: staged state equals the state before the command, through every store")
		t.Assert(len(evs) == 1 && evs[0].Name == blockchain.EventNameDefault, "failed command: only the standard event remains")
		t.Assert(res.Code() == 0, "failed command reports failure (not invalid)")
		t.Reach("failed")
		return
	}
	// reference: apply the script to the pre-state
	want := before
	for _, op := range cmd.ops {
		if op.del {
			want[op.store][op.key] = [2]byte{}
		} else {
			want[op.store][op.key] = [2]byte{1, op.val}
		}
	}
	t.Assert(after == want, "successful command: its writes are kept")
	t.Assert(len(evs) == 2 && evs[1].Name == blockchain.EventNameDefault, "successful command: its event and the standard event are logged")
	t.Assert(res.Code() == 1, "successful command reports success")
	t.Reach("succeeded")
}

func (s *zzsStore) Set(key, value []byte) {
	for _, kv := range s.kvs {
		if bytes.Equal(kv.k, key) {
			kv.v = value
			return
		}
	}
	s.kvs = append(s.kvs, &zzsKV{k: key, v: value})
}
func (s *zzsStore) Del(key []byte) {
	for i, kv := range s.kvs {
		if bytes.Equal(kv.k, key) {
			s.kvs = append(s.kvs[:i:i], s.kvs[i+1:]...)
			return
		}
	}
}

// zzsVal is the observable content of one key: exists, length (0/1) and the byte.
type zzsVal [3]byte

func zzsMk(empty bool, v byte) ([]byte, zzsVal) {
	if empty {
		return []byte{}, zzsVal{1, 0, 0}
	}
	return []byte{v}, zzsVal{1, 1, v}
}

// C16.b/d: a block made of an earlier transaction, a command that may fail and a later transaction,
// committed and then reverted. Persisted values may be EMPTY byte strings (present but zero-length).
// The committed store equals the reference (failed command contributes nothing), and reverting the
// returned diff restores the previous store exactly.
//
//zz:opt loop=80
//zz:quick OPS=1
//zz:thorough OPS=2
func zzH_C16_block_commit_revert(t *zzT) {
	prefix := ModuleStorePrefix([]byte{0, 0, 0, 1}, []byte{0, 0})
	key := func(k byte) []byte { return append(append([]byte{}, prefix...), k) }
	backing := &zzsStore{}
	var model [3]zzsVal
	v0, m0 := zzsMk(t.Bool("persisted0 empty"), t.U8("persisted0"))
	backing.kvs = append(backing.kvs, &zzsKV{k: key(0), v: v0})
	model[0] = m0
	backing.kvs = append(backing.kvs, &zzsKV{k: key(1), v: []byte{9}})
	model[1] = zzsVal{1, 1, 9}
	orig := model
	dump := func(s *zzsStore) [3]zzsVal {
		var r [3]zzsVal
		for k := 0; k < 3; k++ {
			if v, ok := s.Get(key(byte(k))); ok {
				r[k][0] = 1
				if len(v) > 0 {
					r[k][1], r[k][2] = 1, v[0]
				}
			}
		}
		return r
	}
	state := diffdb.New(backing, []byte{})
	apply := func(name string, kinds int) (int, byte, []byte, zzsVal) {
		kind := t.Choice(name+" kind", kinds)
		k := t.U8(name + " key")
		t.Assume(k < 3)
		var val []byte
		var mv zzsVal
		if kind == 2 {
			val, mv = zzsMk(t.Bool(name+" empty"), t.U8(name+" val"))
		}
		return kind, k, val, mv
	}
	// earlier transaction of the block: none / get / set / del
	ek, ekey, eval, emv := apply("early", 4)
	view := state.WithPrefix(prefix)
	switch ek {
	case 1:
		view.Get([]byte{ekey})
	case 2:
		view.Set([]byte{ekey}, eval)
		model[ekey] = emv
	case 3:
		view.Del([]byte{ekey})
		model[ekey] = zzsVal{}
	}
	// the command
	cmd := &zzsCommand{fail: t.Bool("fail")}
	nops := t.Range("ops", 0, t.Param("OPS", 1))
	cmodel := model
	for i := 0; i < nops; i++ {
		k := t.U8(t.Name("key", i))
		t.Assume(k < 3)
		op := zzsOp{store: 0, del: t.Bool(t.Name("del", i)), key: k, val: t.U8(t.Name("val", i))}
		cmd.ops = append(cmd.ops, op)
		if op.del {
			cmodel[k] = zzsVal{}
		} else {
			cmodel[k] = zzsVal{1, 1, op.val}
		}
	}
	if !cmd.fail {
		model = cmodel
	}
	ex := NewExecuter()
	ex.Init(zzsLogger{})
	ex.modules = append(ex.modules, &zzsModule{cmd: cmd})
	events := NewEventLogger(7)
	tx := &blockchain.Transaction{Module: "mod", Command: "cmd", SenderPublicKey: bytes.Repeat([]byte{1}, 32), Params: []byte{}}
	tx.Init()
	ctx := NewTransactionExecuteContext(context.Background(), zzsLogger{}, []byte{0, 0, 0, 1}, state, events,
		&blockchain.BlockHeader{Height: 7}, nil, nil, false, 0, tx)
	ex.ExecuteTransaction(ctx)
	// later transaction of the block: none / get / set / del
	lk, lkey, lval, lmv := apply("late", 4)
	view = state.WithPrefix(prefix)
	switch lk {
	case 1:
		_, ok := view.Get([]byte{lkey})
		t.Assert(ok == (model[lkey][0] == 1), "a later read sees the state without the failed command's writes")
	case 2:
		view.Set([]byte{lkey}, lval)
		model[lkey] = lmv
	case 3:
		view.Del([]byte{lkey})
		model[lkey] = zzsVal{}
	}
	// commit the block, then revert it
	diff := state.Commit(backing)
	t.Assert(dump(backing) == model, "the committed store is the previous store with the block's successful writes applied")
	diffdb.New(backing, []byte{}).RevertDiff(backing, diff)
	t.Assert(dump(backing) == orig, "reverting the block's diff restores the previous store exactly")
	t.Reach("end")
}

// C16.b with commands that take checkpoints of their own (the Snapshot method of the execution
// context, which modules may call): two transactions of one block share the block's staged store and
// its snapshot table. The first command takes a checkpoint and succeeds; the second writes, takes a
// checkpoint at a symbolic point, writes again and fails. The failed command must leave the staged
// state exactly as the first transaction left it — whatever checkpoints either command took.
//
//zz:opt loop=80 require=end
func zzH_C16_checkpointing_commands(t *zzT) {
	backing := &zzsStore{}
	backing.kvs = append(backing.kvs, &zzsKV{k: append(ModuleStorePrefix([]byte{0, 0, 0, 1}, []byte{0, 0}), 0), v: []byte{9}})
	state := diffdb.New(backing, []byte{})
	read := func() [3][2]byte {
		var r [3][2]byte
		v := state.WithPrefix(ModuleStorePrefix([]byte{0, 0, 0, 1}, []byte{0, 0}))
		for k := 0; k < 3; k++ {
			if val, ok := v.Get([]byte{byte(k)}); ok {
				r[k] = [2]byte{1, val[0]}
			}
		}
		return r
	}
	cmd := &zzsCommand{}
	ex := NewExecuter()
	ex.Init(zzsLogger{})
	ex.modules = append(ex.modules, &zzsModule{cmd: cmd})
	events := NewEventLogger(7)
	run := func(nonce uint64) {
		tx := &blockchain.Transaction{Module: "mod", Command: "cmd", Nonce: nonce, SenderPublicKey: bytes.Repeat([]byte{1}, 32), Params: []byte{}}
		tx.Init()
		ctx := NewTransactionExecuteContext(context.Background(), zzsLogger{}, []byte{0, 0, 0, 1}, state, events,
			&blockchain.BlockHeader{Height: 7}, nil, nil, false, 0, tx)
		ex.ExecuteTransaction(ctx)
	}
	// transaction 1: checkpoint (kept), one write, success
	cmd.ops = []zzsOp{{store: 0, key: 1, val: t.U8("tx1.val")}}
	cmd.fail, cmd.useCheckpoint, cmd.checkpointAt = false, t.Bool("tx1.checkpoint"), 0
	run(1)
	after1 := read()
	// transaction 2: write, checkpoint somewhere, write, fail
	cmd.ops = []zzsOp{{store: 0, key: 2, val: t.U8("tx2.val")}, {store: 0, del: t.Bool("tx2.del"), key: 0, val: t.U8("tx2.val2")}}
	cmd.fail, cmd.useCheckpoint, cmd.checkpointAt = true, t.Bool("tx2.checkpoint"), t.Choice("tx2.checkpointAt", 3)
	run(2)
	t.Assert(read() == after1, "a failed command leaves the staged state as before it, whatever checkpoints the commands of the block took")
	t.Reach("end")
}
