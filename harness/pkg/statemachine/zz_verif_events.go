//go:build verif

package statemachine

import "github.com/LiskHQ/lisk-engine/pkg/codec"

// C16.a: after RestoreSnapshot exactly the events logged before the snapshot and the
// unrevertible ones logged after it remain, with consecutive indices.
//
//zz:opt loop=16
//zz:quick K=3
//zz:thorough K=5
func zzH_C16_event_revert(t *zzT) {
	K := t.Param("K", 3)
	k := t.Range("k", 1, K)
	snapAt := t.Range("snapAt", 0, k)
	l := NewEventLogger(t.U32("height"))
	l.SetDefaultTopic([]byte{9})
	type exp struct {
		tag   byte
		keeps bool
	}
	var want []exp
	for i := 0; i < k; i++ {
		if i == snapAt {
			l.CreateSnapshot()
		}
		unrev := t.Bool(t.Name("unrevertible", i))
		tag := t.U8(t.Name("tag", i))
		var err error
		if unrev {
			err = l.AddUnrevertible("mod", "evt", []byte{tag}, []codec.Hex{{1}})
		} else {
			err = l.Add("mod", "evt", []byte{tag}, []codec.Hex{{1}})
		}
		t.Assert(err == nil, "valid event is accepted")
		want = append(want, exp{tag: tag, keeps: i < snapAt || unrev})
	}
	if snapAt == k {
		l.CreateSnapshot()
	}
	l.RestoreSnapshot()
	got := l.Events()
	n := 0
	for _, w := range want {
		if !w.keeps {
			continue
		}
		if n < len(got) {
			t.Assert(got[n].Data[0] == w.tag, "kept events are the pre-snapshot and unrevertible ones, in order")
			t.Assert(got[n].Index == uint32(n), "indices are consecutive from 0")
		}
		n++
	}
	t.Assert(len(got) == n, "revertible events logged after the snapshot are discarded")
	t.ObserveU64("remaining", uint64(len(got)))
	t.Reach("end")
}
