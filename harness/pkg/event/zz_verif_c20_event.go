//go:build verif

package event

import "time"

// C20.e: the event emitter with live subscribers. One publisher, two subscribers (unbuffered
// channels, the second one slow), one goroutine that tears the subscription down (Unsubscribe of the
// slow subscriber / UnsubscribeAll / Close) at any moment — all interleavings within the
// context-switch budget. Asserted: no goroutine panics (a teardown that can interleave with a delivery
// closes a channel the publisher is about to send on), nobody deadlocks, a message is delivered at
// most once per subscriber, and delivery is all-or-nothing with respect to the teardown: a
// subscriber that stays subscribed receives the message, subscribers torn down together either both
// received it or neither did.
//
// Natively the interleaving cannot be steered; the sleeps make the native schedule the critical one
// (publisher parked on the slow subscriber while the teardown runs), so that a counterexample found
// by the engine reproduces in the native replay.
//
//zz:opt sched=2 join=1 loop=64 blockfree=0
//zz:thorough sched=3 budget=1800s
func zzH_C20_event_emitter_teardown(t *zzT) {
	ee := New()
	s1 := ee.Subscribe("e")
	s2 := ee.Subscribe("e")
	teardown := t.Choice("teardown", 3)
	var got1, got2 int
	done := make(chan int, 4)
	go func() {
		for m := range s1 {
			if m.(int) == 7 {
				got1++
			}
		}
		done <- 1
	}()
	go func() {
		if !t.Symbolic() {
			time.Sleep(40 * time.Millisecond) // the slow subscriber
		}
		for m := range s2 {
			if m.(int) == 7 {
				got2++
			}
		}
		done <- 2
	}()
	go func() {
		if !t.Symbolic() {
			time.Sleep(15 * time.Millisecond) // tear down while the publisher waits for the slow subscriber
		}
		switch teardown {
		case 0:
			_ = ee.Unsubscribe("e", s2)
		case 1:
			_ = ee.UnsubscribeAll("e")
		case 2:
			_ = ee.Close()
		}
		done <- 3
	}()
	ee.Publish("e", 7)
	// let the teardown finish, then end every subscription so that the subscribers return
	n := 0
	for first := 0; first != 3; n++ {
		first = <-done
	}
	_ = ee.Close()
	for ; n < 3; n++ {
		<-done
	}
	t.Assert(got1 <= 1 && got2 <= 1, "a published message is delivered at most once per subscriber")
	if teardown == 0 {
		t.Assert(got1 == 1, "a subscriber that stays subscribed receives the published message")
	} else {
		t.Assert(got1 == got2, "subscribers torn down together either both received the message or neither did")
	}
	t.Reach("end")
}
