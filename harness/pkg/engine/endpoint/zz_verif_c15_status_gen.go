//go:build verif

package endpoint

import (
	"github.com/LiskHQ/lisk-engine/pkg/blockchain"
	"github.com/LiskHQ/lisk-engine/pkg/collection/bytes"
	"github.com/LiskHQ/lisk-engine/pkg/generator"
)

// C15 "… the largest height it ever generated is persisted before the block is handed on and is what
// maxHeightGenerated reports next time" — where the RPC endpoints and the generator meet. The persisted
// GeneratorInfo has two users: forge() (reads it in initBlockHeader for maxHeightGenerated of the next header,
// writes the info of the sealed header before AddInternal) and the generator_* endpoints (setStatus writes it,
// updateStatus compares the operator's claim with it, getStatus reports it). They must talk about the SAME record,
// otherwise the comparison in updateStatus protects nothing:
//   - a generator moved to this node with setStatus(x) + updateStatus(enable, x) must build its next header on x
//     (maxHeightGenerated >= x.height and >= x.maxHeightGenerated) — else it signs a header that contradicts what
//     the key signed on the old node;
//   - after the generator forged a block, the stored info the endpoints see is that block's info: getStatus reports
//     it and an enable that still claims the info from before the block differs from it and is refused.
// White-box part (generator's unexported read/write) through the bridge harness/pkg/generator/
// zz_verif_export_c15_status.go; kept in a file of its own.

func (e *zzsEnv) useGenerator(g *generator.Generator) {
	e.gen = g
	e.ep.generator = g
}

// zzH_C15_status_reaches_generator: setStatus(x), updateStatus(enable, x) on a node whose tip is ahead of x; the
// header the generator starts next for that address reports maxHeightGenerated = max(x.height, x.maxHeightGenerated).
//
//zz:opt loop=200 lockdiscipline=off require=end
//zz:stub encoding/json.Unmarshal zzsStubUnmarshal
//zz:quick hbits=14 tbits=7
//zz:thorough hbits=32 tbits=31
func zzH_C15_status_reaches_generator(t *zzT) {
	tip := &blockchain.BlockHeader{Version: 2, Height: t.U32("tip.height"), MaxHeightPrevoted: 0xffffffff, ID: bytes.Repeat([]byte{0x1d}, 32),
		PreviousBlockID: bytes.Repeat([]byte{0x1c}, 32), GeneratorAddress: zzsAddrB}
	lim := uint32(1) << uint(t.Param("tbits", 7)) // tip height and BFT maxHeightPrevoted below 2^tbits (varint lengths of the next info)
	mhp := t.U32("bft.maxHeightPrevoted")
	t.Assume(t.And(tip.Height < lim-1, mhp < lim))
	e := zzsNewEnv(t, tip)
	e.useGenerator(generator.ZZC15StatusGenerator(e.chain, e.genDB, e.chDB, mhp))
	zzsStoreKeys(e.genDB, zzsAddrA, 0x40)
	x := zzsInfo(t, "set", t.Param("hbits", 7))
	t.Assume(x.MaxHeightPrevoted != 0xffffffff)

	hd0, err := generator.ZZC15StatusNextHeader(e.gen, zzsAddrA)
	t.Assert(err == nil && hd0 != nil && hd0.MaxHeightGenerated == 0, "a generator without stored info starts from maxHeightGenerated 0")

	e.setStatus(zzsAddrA, x)
	w := e.update(UpdateStatusRequest{GeneratorAddress: zzsAddrA, Enable: true, Height: x.Height, MaxHeightPrevoted: x.MaxHeightPrevoted, MaxHeightGenerated: x.MaxHeightGenerated})
	t.Assert(w.writes == 1 && e.gen.IsGenerationEnabled(zzsAddrA), "setStatus(x) then enable with x is accepted")

	hd, err := generator.ZZC15StatusNextHeader(e.gen, zzsAddrA)
	t.Assert(err == nil && hd != nil, "the generator starts a header for the enabled address")
	if err != nil || hd == nil {
		return
	}
	t.Assert(hd.Height == tip.Height+1, "the next header extends the tip")
	t.Assert(t.And(hd.MaxHeightGenerated >= x.Height, hd.MaxHeightGenerated >= x.MaxHeightGenerated),
		"the info set through setStatus and confirmed by updateStatus is what the generator's next header reports: maxHeightGenerated >= the set height and maxHeightGenerated")
	t.ObserveU64("maxHeightGenerated", uint64(hd.MaxHeightGenerated))
	t.Reach("end")
}

// zzH_C15_status_follows_generator: first enable on a fresh node (all-zero info), the generator forges a block
// (its info is persisted as forge() does); now the stored info the endpoints see must be that block's: getStatus
// reports it, enable with it is accepted, and enable with the info from before the block (all zero — it differs in
// the height) is refused.
//
//zz:opt loop=200 lockdiscipline=off require=end
//zz:stub encoding/json.Unmarshal zzsStubUnmarshal
//zz:quick hbits=14
//zz:thorough hbits=31
func zzH_C15_status_follows_generator(t *zzT) {
	tip := &blockchain.BlockHeader{Version: 2, Height: t.U32("tip.height"), MaxHeightPrevoted: 0xffffffff, ID: bytes.Repeat([]byte{0x1d}, 32),
		PreviousBlockID: bytes.Repeat([]byte{0x1c}, 32), GeneratorAddress: zzsAddrB}
	lim := uint32(1) << uint(t.Param("hbits", 7))
	mhp := t.U32("bft.maxHeightPrevoted")
	t.Assume(t.And(tip.Height < lim-1, mhp < lim))
	e := zzsNewEnv(t, tip)
	e.useGenerator(generator.ZZC15StatusGenerator(e.chain, e.genDB, e.chDB, mhp))
	zzsStoreKeys(e.genDB, zzsAddrA, 0x40)

	w := e.update(UpdateStatusRequest{GeneratorAddress: zzsAddrA, Enable: true})
	t.Assert(w.writes == 1 && e.gen.IsGenerationEnabled(zzsAddrA), "first enable with the all-zero info is accepted")

	hd, err := generator.ZZC15StatusNextHeader(e.gen, zzsAddrA)
	t.Assert(err == nil && hd != nil, "the generator starts a header for the enabled address")
	if err != nil || hd == nil {
		return
	}
	generator.ZZC15StatusPersistForged(e.gen, hd) // height = tip+1 >= 1

	st, _ := e.statusOf(zzsAddrA)
	t.Assert(st != nil && st.Height == hd.Height && st.MaxHeightPrevoted == hd.MaxHeightPrevoted && st.MaxHeightGenerated == hd.MaxHeightGenerated,
		"getStatus reports the info of the block the generator forged last")

	e.update(UpdateStatusRequest{GeneratorAddress: zzsAddrA, Enable: false})
	w = e.update(UpdateStatusRequest{GeneratorAddress: zzsAddrA, Enable: true})
	t.Assert(w.errs == 1 && !e.gen.IsGenerationEnabled(zzsAddrA),
		"after a forged block, enable with the info from before that block (all zero) contradicts the persisted info and is refused")
	w = e.update(UpdateStatusRequest{GeneratorAddress: zzsAddrA, Enable: true, Height: hd.Height, MaxHeightPrevoted: hd.MaxHeightPrevoted, MaxHeightGenerated: hd.MaxHeightGenerated})
	t.Assert(w.writes == 1 && e.gen.IsGenerationEnabled(zzsAddrA), "after a forged block, enable with that block's info is accepted")
	t.Reach("end")
}
