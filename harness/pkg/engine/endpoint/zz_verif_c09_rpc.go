//go:build verif

package endpoint

import (
	"context"
	"errors"
	"time"

	"github.com/LiskHQ/lisk-engine/pkg/blockchain"
	"github.com/LiskHQ/lisk-engine/pkg/codec"
	"github.com/LiskHQ/lisk-engine/pkg/collection/bytes"
	"github.com/LiskHQ/lisk-engine/pkg/consensus"
	"github.com/LiskHQ/lisk-engine/pkg/labi"
	"github.com/LiskHQ/lisk-engine/pkg/log"
	"github.com/LiskHQ/lisk-engine/pkg/p2p"
	"github.com/LiskHQ/lisk-engine/pkg/router"
	"github.com/LiskHQ/lisk-engine/pkg/txpool"
)

// C09 "no … message received from … an RPC client can crash … the node": the two RPC endpoints that take an object
// from the client — txpool_postTransaction and chain_postBlock. The handlers run in a goroutine of the router
// without recover, so a panic ends the process. The JSON document is the client's: whatever it is, the decoder
// hands the handler SOME value of the request type — under the engine encoding/json.Unmarshal is a stub that
// produces each shape of that type (object absent, object present but empty, nested parts absent, a nil element in
// a list, a well-formed object); natively the corresponding JSON text goes through the real decoder. The handler
// answers every shape with a result or an error, never with a panic.

type zzrWriter struct {
	writes, errs int
}

func (w *zzrWriter) Write(interface{}) { w.writes++ }
func (w *zzrWriter) Error(error)       { w.errs++ }

type zzrABI struct{ labi.ABI }

func (zzrABI) VerifyTransaction(*labi.VerifyTransactionRequest) (*labi.VerifyTransactionResponse, error) {
	return &labi.VerifyTransactionResponse{Result: labi.TxVerifyResultOk}, nil
}

type zzrLogger struct{}

func (zzrLogger) Debug(msg string, others ...interface{})    {}
func (zzrLogger) Info(msg string, others ...interface{})     {}
func (zzrLogger) Error(msg string, others ...interface{})    {}
func (zzrLogger) Debugf(msg string, others ...interface{})   {}
func (zzrLogger) Infof(msg string, others ...interface{})    {}
func (zzrLogger) Errorf(msg string, others ...interface{})   {}
func (zzrLogger) Warning(msg string, others ...interface{})  {}
func (zzrLogger) Warningf(msg string, others ...interface{}) {}
func (l zzrLogger) With(kv ...interface{}) log.Logger        { return l }

type zzrConn struct{}

func (zzrConn) Broadcast(context.Context, string, []byte) error { return nil }
func (zzrConn) RegisterRPCHandler(string, p2p.RPCHandler, ...p2p.RPCHandlerOption) error {
	return nil
}
func (zzrConn) RegisterEventHandler(string, p2p.EventHandler, p2p.Validator) error { return nil }
func (zzrConn) ApplyPenalty(p2p.PeerID, int)                                      {}
func (zzrConn) RequestFrom(context.Context, p2p.PeerID, string, []byte) p2p.Response {
	return p2p.Response{}
}
func (zzrConn) Publish(context.Context, string, []byte) error { return nil }

func zzrTicker(d time.Duration) *time.Ticker { return &time.Ticker{C: make(chan time.Time)} }

var zzrShape int

func zzrTx() *blockchain.Transaction {
	return &blockchain.Transaction{Module: "token", Command: "transfer", Nonce: 1, Fee: 10000000, SenderPublicKey: bytes.Repeat([]byte{1}, 32),
		Params: []byte{1}, Signatures: []codec.Hex{bytes.Repeat([]byte{2}, 64)}}
}

func zzrHeader() *blockchain.BlockHeader {
	return &blockchain.BlockHeader{Version: 2, Height: 5, PreviousBlockID: bytes.Repeat([]byte{1}, 32), GeneratorAddress: bytes.Repeat([]byte{2}, 20),
		TransactionRoot: bytes.Repeat([]byte{3}, 32), AssetRoot: bytes.Repeat([]byte{4}, 32), EventRoot: bytes.Repeat([]byte{5}, 32), StateRoot: bytes.Repeat([]byte{6}, 32),
		ValidatorsHash: bytes.Repeat([]byte{7}, 32), AggregateCommit: &blockchain.AggregateCommit{AggregationBits: []byte{}, CertificateSignature: []byte{}}, Signature: bytes.Repeat([]byte{8}, 64)}
}

// the JSON texts of the shapes (native side) — same order as zzrStubUnmarshal
var zzrTxJSON = []string{`{}`, `{"transaction":null}`, `{"transaction":{}}`,
	`{"transaction":{"module":"token","command":"transfer","nonce":"1","fee":"10000000","senderPublicKey":"0101010101010101010101010101010101010101010101010101010101010101","params":"01","signatures":["02020202020202020202020202020202020202020202020202020202020202020202020202020202020202020202020202020202020202020202020202020202"]}}`,
	`[1]`}
var zzrBlockJSON = []string{`{}`, `{"block":{}}`, `{"block":{"header":{}}}`, `{"block":{"header":{"aggregateCommit":{}},"transactions":[null]}}`,
	`{"block":{"header":{"version":2,"height":5,"aggregateCommit":{"height":0,"aggregationBits":"","certificateSignature":""}},"transactions":[],"assets":[]}}`, `7`}

// zzrStubUnmarshal: encoding/json.Unmarshal under the engine — the shape chosen by the harness.
func zzrStubUnmarshal(data []byte, v interface{}) error {
	switch r := v.(type) {
	case *PostTransactionRequest:
		switch zzrShape {
		case 0, 1:
		case 2:
			r.Transaction = &blockchain.Transaction{}
		case 3:
			r.Transaction = zzrTx()
		default:
			return errors.New("json: cannot unmarshal")
		}
	case *PostBlockRequest:
		switch zzrShape {
		case 0:
		case 1:
			r.Block = &blockchain.Block{}
		case 2:
			r.Block = &blockchain.Block{Header: &blockchain.BlockHeader{}}
		case 3:
			r.Block = &blockchain.Block{Header: &blockchain.BlockHeader{AggregateCommit: &blockchain.AggregateCommit{}}, Transactions: []*blockchain.Transaction{nil}}
		case 4:
			h := zzrHeader()
			r.Block = &blockchain.Block{Header: h, Transactions: []*blockchain.Transaction{}, Assets: []*blockchain.BlockAsset{}}
		default:
			return errors.New("json: cannot unmarshal")
		}
	}
	return nil
}

//zz:opt loop=400 require=answered
//zz:stub encoding/json.Unmarshal zzrStubUnmarshal
//zz:stub time.NewTicker zzrTicker
func zzH_C09_rpc_post_transaction(t *zzT) {
	zzrShape = t.Choice("shape", len(zzrTxJSON))
	pool := txpool.NewTransactionPool(&txpool.TransactionPoolConfig{MaxTransactions: 4, MaxTransactionsPerAccount: 4})
	if err := pool.Init(context.Background(), zzrLogger{}, nil, nil, zzrConn{}, zzrABI{}); err != nil {
		t.Fail("pool init")
	}
	a := &txpoolEndpoint{txPool: pool, abi: zzrABI{}}
	w := &zzrWriter{}
	a.HandlePostTransaction(w, router.NewEndpointRequest(context.Background(), nil, []byte(zzrTxJSON[zzrShape])))
	t.Assert(w.writes+w.errs == 1, "txpool_postTransaction answers every request with one result or one error")
	if zzrShape != 3 && zzrShape != 2 {
		// (an EMPTY transaction object is handed to the application's verification, which decides; only the
		// absence of the object and undecodable JSON are the handler's own to refuse)
		t.Assert(w.errs == 1 && len(pool.GetAll()) == 0, "a request without a transaction is answered with an error and nothing is pooled")
	}
	t.Reach("answered")
}

//zz:opt loop=400 require=answered
//zz:stub encoding/json.Unmarshal zzrStubUnmarshal
func zzH_C09_rpc_post_block(t *zzT) {
	zzrShape = t.Choice("shape", len(zzrBlockJSON))
	a := &chainEndpoint{consensusExec: consensus.NewExecuter(&consensus.ExecuterConfig{})}
	w := &zzrWriter{}
	a.HandlePostBlock(w, router.NewEndpointRequest(context.Background(), nil, []byte(zzrBlockJSON[zzrShape])))
	t.Assert(w.writes+w.errs == 1, "chain_postBlock answers every request with one result or one error")
	if zzrShape != 4 {
		t.Assert(w.errs == 1, "a request without a usable block is answered with an error")
	}
	t.Reach("answered")
}
