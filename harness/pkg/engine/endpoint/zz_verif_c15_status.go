//go:build verif

package endpoint

import (
	"context"
	"encoding/json"
	"errors"

	"github.com/LiskHQ/lisk-engine/pkg/blockchain"
	"github.com/LiskHQ/lisk-engine/pkg/codec"
	"github.com/LiskHQ/lisk-engine/pkg/collection/bytes"
	"github.com/LiskHQ/lisk-engine/pkg/consensus"
	"github.com/LiskHQ/lisk-engine/pkg/db"
	"github.com/LiskHQ/lisk-engine/pkg/db/diffdb"
	"github.com/LiskHQ/lisk-engine/pkg/engine/config"
	"github.com/LiskHQ/lisk-engine/pkg/generator"
	"github.com/LiskHQ/lisk-engine/pkg/router"
)

// C15 "a generator never signs two contradicting headers: the largest height it ever generated is persisted … and
// is what maxHeightGenerated reports next time" — the RPC side of it. The operator's only handles on the persisted
// GeneratorInfo {height, maxHeightPrevoted, maxHeightGenerated} of a generator are generator_setStatus (writes it),
// generator_updateStatus (enables generation only when the operator's idea of the info IS the persisted one, so a
// node is never started with stale knowledge of what its key already signed), generator_getStatus (reports it) and
// generator_estimateSafeStatus. The harnesses run the real handlers over the database model (pebble natively), a
// real blockchain.Chain whose tip is symbolic, the real consensus.Executer/liskBFT HeaderHasPriority and the real
// generator.Generator. encoding/json.Unmarshal is reflection: under the engine it is the stub zzsStubUnmarshal,
// which hands the handler the request struct the harness prepared (symbolic fields); natively the same struct goes
// through json.Marshal and the real decoder.

type zzsWriter struct {
	writes, errs int
	last         interface{}
}

func (w *zzsWriter) Write(v interface{}) { w.writes++; w.last = v }
func (w *zzsWriter) Error(error)         { w.errs++ }

var (
	zzsAddrA = codec.Lisk32(bytes.Repeat([]byte{0xa1}, 20)) // the generator the requests are about
	zzsAddrB = codec.Lisk32(bytes.Repeat([]byte{0xb2}, 20)) // a bystander: stored info, enabled, never addressed
)

// the request the stubbed decoder produces (set by the harness right before the handler runs)
var (
	zzsBad      bool // the JSON text is not an object of the request type
	zzsUpdate   UpdateStatusRequest
	zzsSet      SetStatusRequest
	zzsEstimate EstimateSafeStatusRequest
)

func zzsStubUnmarshal(data []byte, v interface{}) error {
	if zzsBad {
		return errors.New("json: cannot unmarshal")
	}
	switch r := v.(type) {
	case *UpdateStatusRequest:
		*r = zzsUpdate
	case *SetStatusRequest:
		*r = zzsSet
	case *EstimateSafeStatusRequest:
		*r = zzsEstimate
	}
	return nil
}

// zzsParams: the JSON text of the request (native side only; the stub ignores the text).
func zzsParams(t *zzT, v interface{}) []byte {
	if t.Symbolic() {
		return nil
	}
	if zzsBad {
		return []byte(`[1]`)
	}
	raw, err := json.Marshal(v)
	if err != nil {
		panic(err)
	}
	return raw
}

type zzsEnv struct {
	t     *zzT
	genDB *db.DB
	chDB  *db.DB
	chain *blockchain.Chain
	exec  *consensus.Executer
	gen   *generator.Generator
	ep    *generatorEndpoint
}

func zzsPlain(b byte) *generator.PlainKeys {
	return &generator.PlainKeys{GeneratorKey: bytes.Repeat([]byte{b}, 32), GeneratorPrivateKey: bytes.Repeat([]byte{b + 1}, 64),
		BLSKey: bytes.Repeat([]byte{b + 2}, 48), BLSPrivateKey: bytes.Repeat([]byte{b + 3}, 32)}
}

// zzsInfoKey: the generator-database key under which the endpoints keep the info of addr. Learnt from the endpoint
// itself — the one key generator_setStatus writes on an empty database (zzsLearnInfoKey, run by zzsNewEnv) — so the
// harnesses prepare and inspect "the record setStatus writes" without depending on the key layout.
var zzsInfoKeys = map[string][]byte{}

func zzsInfoKey(addr []byte) []byte { return zzsInfoKeys[string(addr)] }

func zzsLearnInfoKey(t *zzT, addr codec.Lisk32) {
	d, err := db.NewInMemoryDB()
	if err != nil {
		t.Fail("cannot create database")
	}
	set := SetStatusRequest{Address: addr}
	zzsSet, zzsBad = set, false
	w := &zzsWriter{}
	(&generatorEndpoint{generatorDB: d}).HandleSetStatus(w, router.NewEndpointRequest(context.Background(), nil, zzsParams(t, &set)))
	kvs := db.ZZDump(d)
	if w.writes != 1 || len(kvs) != 1 {
		t.Fail("setStatus on an empty generator database writes exactly one record")
		return
	}
	zzsInfoKeys[string(addr)] = kvs[0].Key()
}
func zzsKeysKey(addr []byte) []byte { return bytes.Join(generator.GeneratorDBPrefixKeys, addr) }

func zzsStoreKeys(d *db.DB, addr codec.Lisk32, b byte) {
	keys := &generator.Keys{Address: addr, Type: generator.KeyTypePlain, Data: zzsPlain(b).Encode()}
	d.Set(zzsKeysKey(addr), keys.Encode())
}

// zzsNewEnv: a node whose tip is the given header; the bystander B has keys, a stored info and is enabled.
func zzsNewEnv(t *zzT, tip *blockchain.BlockHeader) *zzsEnv {
	e := &zzsEnv{t: t}
	zzsLearnInfoKey(t, zzsAddrA)
	zzsLearnInfoKey(t, zzsAddrB)
	var err error
	if e.genDB, err = db.NewInMemoryDB(); err != nil {
		t.Fail("cannot create database")
	}
	if e.chDB, err = db.NewInMemoryDB(); err != nil {
		t.Fail("cannot create database")
	}
	e.chain = blockchain.NewChain(&blockchain.ChainConfig{ChainID: []byte{0, 0, 0, 1}, MaxTransactionsLength: 15360, MaxBlockCache: 4})
	e.chain.Init(&blockchain.Block{Header: &blockchain.BlockHeader{}}, e.chDB)
	if tip != nil {
		if err := e.chain.DataAccess().Cache(&blockchain.Block{Header: tip}); err != nil {
			t.Fail("cannot cache the tip")
		}
	}
	e.exec = consensus.NewExecuter(&consensus.ExecuterConfig{Chain: e.chain})
	e.gen = generator.NewGenerator(&generator.GeneratorParams{Consensus: e.exec, Chain: e.chain})
	cfg := &config.Config{Genesis: &config.GenesisConfig{BlockTime: 10}}
	e.ep = NewGeneratorEndpoint(cfg, e.chain, e.exec, e.gen, e.chDB, e.genDB, nil)

	zzsStoreKeys(e.genDB, zzsAddrB, 0x50)
	e.genDB.Set(zzsInfoKey(zzsAddrB), (&generator.GeneratorInfo{Height: 77, MaxHeightPrevoted: 70, MaxHeightGenerated: 300}).Encode())
	e.gen.EnableGeneration(zzsAddrB, zzsPlain(0x50))
	return e
}

// zzsSnapshot: the durable content of the generator database as one byte string (length-prefixed keys and
// values in key order), without the entry `skip` — compared before/after with a single bytes.Equal.
func zzsSnapshot(d *db.DB, skip []byte) []byte {
	out := []byte{}
	for _, kv := range db.ZZDump(d) {
		if skip != nil && bytes.Equal(kv.Key(), skip) {
			continue
		}
		out = append(out, byte(len(kv.Key())))
		out = append(out, kv.Key()...)
		out = append(out, byte(len(kv.Value())))
		out = append(out, kv.Value()...)
	}
	return out
}

// zzsInfo: symbolic GeneratorInfo with every field below 2^hbits (the encoder forks on the varint length of each
// symbolic integer; hbits=32 is the full range).
func zzsInfo(t *zzT, name string, hbits int) *generator.GeneratorInfo {
	i := &generator.GeneratorInfo{Height: t.U32(name + ".height"), MaxHeightPrevoted: t.U32(name + ".maxHeightPrevoted"), MaxHeightGenerated: t.U32(name + ".maxHeightGenerated")}
	if hbits < 32 {
		lim := uint32(1) << uint(hbits)
		t.Assume(t.And(i.Height < lim, t.And(i.MaxHeightPrevoted < lim, i.MaxHeightGenerated < lim)))
	}
	return i
}

func zzsSame(a, b *generator.GeneratorInfo, t *zzT) bool {
	return t.And(a.Height == b.Height, t.And(a.MaxHeightPrevoted == b.MaxHeightPrevoted, a.MaxHeightGenerated == b.MaxHeightGenerated))
}

func zzsTip(t *zzT) *blockchain.BlockHeader {
	return &blockchain.BlockHeader{Version: t.U32("tip.version"), Height: t.U32("tip.height"), MaxHeightPrevoted: t.U32("tip.maxHeightPrevoted"),
		ID: bytes.Repeat([]byte{0x1d}, 32), PreviousBlockID: bytes.Repeat([]byte{0x1c}, 32), GeneratorAddress: zzsAddrB}
}

func (e *zzsEnv) update(req UpdateStatusRequest) *zzsWriter {
	zzsUpdate = req
	w := &zzsWriter{}
	e.ep.HandleUpdateStatus(w, router.NewEndpointRequest(context.Background(), nil, zzsParams(e.t, &req)))
	return w
}

func (e *zzsEnv) setStatus(addr codec.Lisk32, x *generator.GeneratorInfo) *zzsWriter {
	set := SetStatusRequest{Address: addr, Height: x.Height, MaxHeightPrevoted: x.MaxHeightPrevoted, MaxHeightGenerated: x.MaxHeightGenerated}
	zzsSet, zzsBad = set, false
	w := &zzsWriter{}
	e.ep.HandleSetStatus(w, router.NewEndpointRequest(context.Background(), nil, zzsParams(e.t, &set)))
	return w
}

// synced: what the node's real fork-choice comparison says about the operator's claim (a pure function of the tip)
func (e *zzsEnv) synced(req *generator.GeneratorInfo) bool {
	ok, err := e.exec.HeaderHasPriority(diffdb.New(e.chDB, blockchain.DBPrefixToBytes(blockchain.DBPrefixState)), e.chain.LastBlock().Header.Readonly(),
		req.Height, req.MaxHeightPrevoted, req.MaxHeightGenerated)
	return err == nil && ok
}

// zzH_C15_status_update_enable: one generator_updateStatus{enable:true} on an arbitrary node state.
// Stored info of A: absent / present with three arbitrary heights / present but undecodable; keys of A stored or
// not; A enabled before or not; the request's three heights arbitrary and independent of the stored ones; the tip
// arbitrary (so the node may or may not be "synced" relative to the claim); the JSON well-formed or not.
//   - accepted  <=>  JSON ok, keys stored, node synced, and the claim equals the stored info in ALL three fields
//     (no stored info: only the all-zero claim);
//   - refused   =>  generator DB unchanged byte for byte, enabled set unchanged (never enables);
//   - accepted  =>  the stored info of A is unchanged byte for byte (absent before: now the all-zero info), nothing
//     else in the generator DB changed, A is enabled, the bystander is untouched.
//
//zz:opt loop=200 lockdiscipline=off require=accepted_equal,accepted_first,refused_contradicting,refused_no_info,refused_not_synced,refused_no_keys,refused_bad_json,refused_corrupt
//zz:stub encoding/json.Unmarshal zzsStubUnmarshal
//zz:quick hbits=14
//zz:thorough hbits=32
func zzH_C15_status_update_enable(t *zzT) {
	e := zzsNewEnv(t, zzsTip(t))
	stored := t.Choice("stored", 3) // 0 absent, 1 present, 2 present but undecodable
	var prev *generator.GeneratorInfo
	switch stored {
	case 1:
		prev = zzsInfo(t, "stored", t.Param("hbits", 7))
		e.genDB.Set(zzsInfoKey(zzsAddrA), prev.Encode())
	case 2:
		e.genDB.Set(zzsInfoKey(zzsAddrA), []byte{0x08}) // key of field 1 without a value
	}
	hasKeys := t.Bool("keysStored")
	if hasKeys {
		zzsStoreKeys(e.genDB, zzsAddrA, 0x40)
	}
	wasEnabled := t.Bool("enabledBefore")
	if wasEnabled {
		e.gen.EnableGeneration(zzsAddrA, zzsPlain(0x40))
	}
	zzsBad = t.Bool("badJSON")
	claim := zzsInfo(t, "request", 32)

	before := zzsSnapshot(e.genDB, nil)
	beforeRest := zzsSnapshot(e.genDB, zzsInfoKey(zzsAddrA))
	rawBefore, _ := e.genDB.Get(zzsInfoKey(zzsAddrA))
	synced := e.synced(claim)

	w := e.update(UpdateStatusRequest{GeneratorAddress: zzsAddrA, Enable: true, Height: claim.Height,
		MaxHeightPrevoted: claim.MaxHeightPrevoted, MaxHeightGenerated: claim.MaxHeightGenerated})

	t.Assert(w.writes+w.errs == 1, "updateStatus answers with exactly one result or one error")
	accepted := w.writes == 1
	matches := false
	switch stored {
	case 0:
		matches = claim.IsZero()
	case 1:
		matches = zzsSame(claim, prev, t)
	}
	t.Assert(accepted == t.And(t.And(!zzsBad, hasKeys), t.And(synced, matches)),
		"enable is accepted exactly when the claimed info equals the stored info in all three fields (none stored: all zero), the keys are stored and the node is synced")
	t.Assert(e.gen.IsGenerationEnabled(zzsAddrB), "updateStatus for A leaves the bystander generator enabled")
	rawAfter, existsAfter := e.genDB.Get(zzsInfoKey(zzsAddrA))
	if !accepted {
		t.Assert(bytes.Equal(zzsSnapshot(e.genDB, nil), before), "a refused enable leaves the generator database unchanged byte for byte")
		t.Assert(e.gen.IsGenerationEnabled(zzsAddrA) == wasEnabled, "a refused enable never enables the generator (enabled set unchanged)")
		switch {
		case zzsBad:
			t.Reach("refused_bad_json")
		case !hasKeys:
			t.Reach("refused_no_keys")
		case stored == 2 && synced:
			t.Reach("refused_corrupt")
		case !synced:
			t.Reach("refused_not_synced")
		case stored == 0:
			t.Reach("refused_no_info")
		case stored == 1:
			t.Reach("refused_contradicting")
		}
		return
	}
	t.Assert(e.gen.IsGenerationEnabled(zzsAddrA), "an accepted enable enables the generator")
	t.Assert(bytes.Equal(zzsSnapshot(e.genDB, zzsInfoKey(zzsAddrA)), beforeRest), "an accepted enable changes nothing but A's info entry in the generator database")
	if resp, ok := w.last.(*UpdateStatusResponse); ok {
		t.Assert(resp.Enabled && bytes.Equal(resp.Address, zzsAddrA), "the result names the generator and says enabled")
	} else {
		t.Fail("the result of updateStatus is an UpdateStatusResponse")
	}
	if stored == 1 {
		t.Assert(existsAfter && bytes.Equal(rawAfter, rawBefore), "an accepted enable leaves the stored info unchanged byte for byte")
		t.ObserveBytes("storedInfo", rawAfter)
		t.Reach("accepted_equal")
		return
	}
	after := &generator.GeneratorInfo{}
	t.Assert(existsAfter && after.Decode(rawAfter) == nil && after.IsZero(), "first enable (no stored info): the info persisted is the all-zero info")
	t.Reach("accepted_first")
}

// zzH_C15_status_update_disable: generator_updateStatus{enable:false} with arbitrary heights in the request, on a
// node with arbitrary stored info (absent / present) and an arbitrary tip: disabling never touches the stored info
// (whole generator DB unchanged byte for byte), never needs the node to be synced or the claim to match, disables
// exactly the addressed generator; refused (no keys / bad JSON) => nothing changed at all.
//
//zz:opt loop=200 lockdiscipline=off require=disabled,refused
//zz:stub encoding/json.Unmarshal zzsStubUnmarshal
//zz:quick hbits=14
//zz:thorough hbits=32
func zzH_C15_status_update_disable(t *zzT) {
	e := zzsNewEnv(t, zzsTip(t))
	if t.Bool("infoStored") {
		e.genDB.Set(zzsInfoKey(zzsAddrA), zzsInfo(t, "stored", t.Param("hbits", 7)).Encode())
	}
	hasKeys := t.Bool("keysStored")
	if hasKeys {
		zzsStoreKeys(e.genDB, zzsAddrA, 0x40)
	}
	wasEnabled := t.Bool("enabledBefore")
	if wasEnabled {
		e.gen.EnableGeneration(zzsAddrA, zzsPlain(0x40))
	}
	zzsBad = t.Bool("badJSON")
	claim := zzsInfo(t, "request", 32)
	before := zzsSnapshot(e.genDB, nil)

	w := e.update(UpdateStatusRequest{GeneratorAddress: zzsAddrA, Enable: false, Height: claim.Height,
		MaxHeightPrevoted: claim.MaxHeightPrevoted, MaxHeightGenerated: claim.MaxHeightGenerated})

	t.Assert(w.writes+w.errs == 1, "updateStatus answers with exactly one result or one error")
	t.Assert(bytes.Equal(zzsSnapshot(e.genDB, nil), before), "disabling never touches the stored generator info (generator database unchanged byte for byte)")
	t.Assert(e.gen.IsGenerationEnabled(zzsAddrB), "disabling A leaves the bystander generator enabled")
	t.Assert((w.writes == 1) == (!zzsBad && hasKeys), "disable is accepted whenever the request decodes and the keys are stored (no sync / info condition)")
	if w.writes == 1 {
		t.Assert(!e.gen.IsGenerationEnabled(zzsAddrA), "an accepted disable disables the generator")
		if resp, ok := w.last.(*UpdateStatusResponse); ok {
			t.Assert(!resp.Enabled && bytes.Equal(resp.Address, zzsAddrA), "the result names the generator and says disabled")
		} else {
			t.Fail("the result of updateStatus is an UpdateStatusResponse")
		}
		t.Reach("disabled")
		return
	}
	t.Assert(e.gen.IsGenerationEnabled(zzsAddrA) == wasEnabled, "a refused disable leaves the enabled set unchanged")
	t.Reach("refused")
}

// zzsStatusOf runs the real generator_getStatus and returns the entry reported for addr (nil: none) and the
// number of entries.
func (e *zzsEnv) statusOf(addr []byte) (*GeneratorStatus, int) {
	w := &zzsWriter{}
	e.ep.HandleGetStatus(w, router.NewEndpointRequest(context.Background(), nil, nil))
	resp, ok := w.last.(*GetGeneratorsResponse)
	if w.writes != 1 || w.errs != 0 || !ok {
		e.t.Fail("getStatus answers with one GetGeneratorsResponse")
		return nil, 0
	}
	var found *GeneratorStatus
	for _, s := range resp.Status {
		if s != nil && bytes.Equal(s.Address, addr) {
			found = s
		}
	}
	return found, len(resp.Status)
}

// zzH_C15_status_set_then_update: the operator's sequence when a generator moves to this node.
// setStatus(x) (whatever was stored before: nothing or another info) → getStatus reports x, not enabled →
// updateStatus(enable, y): accepted <=> y == x in all three fields (node synced for y) → a refused y leaves x
// stored and the generator disabled → updateStatus(enable, x) now succeeds, getStatus reports x, enabled →
// updateStatus(disable) and a later contradicting enable z != x is still refused: the stored info is x throughout.
//
//zz:opt loop=200 lockdiscipline=off require=equal_accepted,different_refused,end
//zz:stub encoding/json.Unmarshal zzsStubUnmarshal
//zz:quick hbits=14
//zz:thorough hbits=32
func zzH_C15_status_set_then_update(t *zzT) {
	// a tip every claim is behind of (version 2, maxHeightPrevoted of the tip above every claimed value): the sync
	// condition is the subject of zzH_C15_status_update_enable; here it must not be what refuses
	tip := &blockchain.BlockHeader{Version: 2, Height: 0xffffffff, MaxHeightPrevoted: 0xffffffff, ID: bytes.Repeat([]byte{0x1d}, 32),
		PreviousBlockID: bytes.Repeat([]byte{0x1c}, 32), GeneratorAddress: zzsAddrB}
	e := zzsNewEnv(t, tip)
	zzsStoreKeys(e.genDB, zzsAddrA, 0x40)
	if t.Bool("infoStoredBefore") {
		e.genDB.Set(zzsInfoKey(zzsAddrA), (&generator.GeneratorInfo{Height: t.U32("old.height") & 0x7f, MaxHeightPrevoted: 3, MaxHeightGenerated: 200}).Encode())
	}
	x := zzsInfo(t, "set", t.Param("hbits", 7))
	t.Assume(x.MaxHeightPrevoted != 0xffffffff)
	// the later claims (all inputs and assumptions come before the first Reach): y arbitrary, z different from x
	y, z := zzsInfo(t, "claim", 32), zzsInfo(t, "later", 32)
	t.Assume(t.And(y.MaxHeightPrevoted != 0xffffffff, z.MaxHeightPrevoted != 0xffffffff))
	t.Assume(!zzsSame(z, x, t))
	rest := zzsSnapshot(e.genDB, zzsInfoKey(zzsAddrA))

	w := e.setStatus(zzsAddrA, x)
	t.Assert(w.writes == 1 && w.errs == 0, "setStatus answers with a result")
	raw, ok := e.genDB.Get(zzsInfoKey(zzsAddrA))
	got := &generator.GeneratorInfo{}
	t.Assert(ok && got.Decode(raw) == nil && zzsSame(got, x, t), "setStatus persists exactly the given info for the generator")
	t.Assert(bytes.Equal(zzsSnapshot(e.genDB, zzsInfoKey(zzsAddrA)), rest), "setStatus changes nothing but the addressed generator's info")
	t.Assert(!e.gen.IsGenerationEnabled(zzsAddrA), "setStatus does not enable generation")
	st, n := e.statusOf(zzsAddrA)
	t.Assert(n == 2 && st != nil && !st.Enabled && st.Height == x.Height && st.MaxHeightPrevoted == x.MaxHeightPrevoted && st.MaxHeightGenerated == x.MaxHeightGenerated,
		"getStatus reports the info set for the generator (and one entry per generator)")

	// the claim y, independent of x
	same := zzsSame(y, x, t)
	w = e.update(UpdateStatusRequest{GeneratorAddress: zzsAddrA, Enable: true, Height: y.Height, MaxHeightPrevoted: y.MaxHeightPrevoted, MaxHeightGenerated: y.MaxHeightGenerated})
	t.Assert(w.writes+w.errs == 1 && (w.writes == 1) == same, "after setStatus(x): enable with y is accepted exactly when y equals x in all three fields")
	t.Assert(e.gen.IsGenerationEnabled(zzsAddrA) == same, "after setStatus(x): the generator is enabled exactly when the claim was x")
	raw2, ok2 := e.genDB.Get(zzsInfoKey(zzsAddrA))
	t.Assert(ok2 && bytes.Equal(raw2, raw), "after setStatus(x): updateStatus leaves x stored byte for byte, accepted or refused")
	if !same {
		// the right claim still works after a refused one
		w = e.update(UpdateStatusRequest{GeneratorAddress: zzsAddrA, Enable: true, Height: x.Height, MaxHeightPrevoted: x.MaxHeightPrevoted, MaxHeightGenerated: x.MaxHeightGenerated})
		t.Assert(w.writes == 1 && e.gen.IsGenerationEnabled(zzsAddrA), "after a refused claim, enable with x itself is accepted")
	}
	st, n = e.statusOf(zzsAddrA)
	t.Assert(n == 2 && st != nil && st.Enabled && st.Height == x.Height && st.MaxHeightPrevoted == x.MaxHeightPrevoted && st.MaxHeightGenerated == x.MaxHeightGenerated,
		"getStatus reports x and enabled after the accepted enable")

	// disable, then a contradicting enable: still refused, x still stored
	w = e.update(UpdateStatusRequest{GeneratorAddress: zzsAddrA, Enable: false})
	t.Assert(w.writes == 1 && !e.gen.IsGenerationEnabled(zzsAddrA), "disable is accepted")
	w = e.update(UpdateStatusRequest{GeneratorAddress: zzsAddrA, Enable: true, Height: z.Height, MaxHeightPrevoted: z.MaxHeightPrevoted, MaxHeightGenerated: z.MaxHeightGenerated})
	raw3, ok3 := e.genDB.Get(zzsInfoKey(zzsAddrA))
	t.Assert(w.errs == 1 && w.writes == 0 && !e.gen.IsGenerationEnabled(zzsAddrA) && ok3 && bytes.Equal(raw3, raw),
		"after disable: a contradicting enable is refused, the generator stays disabled and x stays stored")
	t.ObserveBytes("storedInfo", raw3)
	if same {
		t.Reach("equal_accepted")
	} else {
		t.Reach("different_refused")
	}
	t.Reach("end")
}

// zzsPutBlock stores a block header the way the node does (real Chain.AddBlock on a chain object of its own, so
// that the block cache of the chain under test stays empty and every read goes to the database).
func zzsPutBlock(chDB *db.DB, height, timestamp uint32, id byte, finalizedHeight uint32) {
	c := blockchain.NewChain(&blockchain.ChainConfig{ChainID: []byte{0, 0, 0, 1}, MaxTransactionsLength: 15360, MaxBlockCache: 4, KeepEventsForHeights: -1})
	c.Init(&blockchain.Block{Header: &blockchain.BlockHeader{}}, chDB)
	hd := zzrHeader()
	hd.Height, hd.Timestamp, hd.ID = height, timestamp, bytes.Repeat([]byte{id}, 32)
	if err := c.AddBlock(chDB.NewBatch(), &blockchain.Block{Header: hd}, nil, finalizedHeight, false); err != nil {
		panic(err)
	}
}

// zzH_C15_status_estimate_safe: generator_estimateSafeStatus gives the operator of a generator that was shut down
// at timeShutdown (and whose stored info is lost) an info to hand to setStatus. For "never signs two contradicting
// headers" the estimate must not be BELOW anything the key may have signed before the shutdown:
//   - it is only given when the finalized block is not older than the shutdown (else: error);
//   - height = maxHeightPrevoted = maxHeightGenerated =: s, and s >= the finalized height (the generator may have
//     forged the finalized block itself);
//   - when the reference block (height = blocks per 30 days) is at or below the finalized block: s >= reference
//     height + number of slots between the reference block and the finalized block — no fork that shares the
//     reference block can have reached a greater height by the time of the finalized block.
//
// Chain: finalized block at symbolic height/timestamp, reference block present or not, above/at/below the
// finalized block, timestamps consistent with one block per slot at most; timeShutdown arbitrary.
//
//zz:opt primary=cvc5-int loop=300 lockdiscipline=off require=estimated,refused_not_finalized,refused_no_reference
//zz:stub encoding/json.Unmarshal zzsStubUnmarshal
//zz:quick hmin=14 hbits=21 tsmin=21 tsbits=28
//zz:thorough hmin=0 hbits=32 tsmin=0 tsbits=32 budget=1800s
func zzH_C15_status_estimate_safe(t *zzT) {
	zzsEstimateSafe(t, t.Choice("chain", 3)) // 0 no block at the reference height; 1 finalized above it; 2 the finalized block IS the reference block
}

// zzH_C15_status_estimate_young_chain: the same obligations on a chain whose finalized block is still BELOW the
// reference height while the tip is already above it (the handler then takes a reference block that is younger
// than the finalized block). A harness of its own because of the solver: the obligation is an integer inequality
// over wrapped differences and a division by the block time; the bit-vector solvers time out on it, cvc5 with
// --solve-bv-as-int decides it (but is slow on everything else).
//
//zz:opt primary=cvc5-int loop=300 lockdiscipline=off require=estimated_young_chain,refused_not_finalized
//zz:stub encoding/json.Unmarshal zzsStubUnmarshal
//zz:quick hmin=14 hbits=21 tsmin=21 tsbits=28
//zz:thorough hmin=0 hbits=32 tsmin=0 tsbits=32 budget=1800s
func zzH_C15_status_estimate_young_chain(t *zzT) {
	zzsEstimateSafe(t, 3)
}

func zzsEstimateSafe(t *zzT, shape int) {
	e := zzsNewEnv(t, nil)
	const blockTime = 10
	const ref = uint32(30 * 24 * 3600 / blockTime) // height of the reference block: blocks per 30 days
	fh, fts, rts, shutdown := t.U32("finalized.height"), t.U32("finalized.timestamp"), t.U32("reference.timestamp"), t.U32("timeShutdown")
	// bounds of the quick tier: one varint length class per symbolic integer of the stored headers
	// (2^hmin <= finalized height < 2^hbits, 2^tsmin <= timestamps < 2^tsbits); thorough: the full range
	if hb := t.Param("hbits", 21); hb < 32 {
		t.Assume(fh < uint32(1)<<uint(hb))
	}
	if tb := t.Param("tsbits", 28); tb < 32 {
		t.Assume(t.And(fts < uint32(1)<<uint(tb), rts < uint32(1)<<uint(tb)))
	}
	if hm := t.Param("hmin", 14); hm > 0 {
		t.Assume(fh >= uint32(1)<<uint(hm))
	}
	if tm := t.Param("tsmin", 21); tm > 0 {
		t.Assume(t.And(fts >= uint32(1)<<uint(tm), rts >= uint32(1)<<uint(tm)))
	}
	switch shape {
	case 0:
		t.Assume(fh != ref)
	case 1:
		t.Assume(t.And(fh > ref, uint64(fts) >= uint64(rts)+blockTime*(uint64(fh)-uint64(ref))))
	case 2:
		t.Assume(t.And(fh == ref, fts == rts))
	case 3:
		t.Assume(t.And(fh < ref, uint64(rts) >= uint64(fts)+blockTime*(uint64(ref)-uint64(fh))))
	}
	zzsBad = false
	zzsPutBlock(e.chDB, fh, fts, 0xf1, fh)
	if shape == 1 || shape == 3 {
		zzsPutBlock(e.chDB, ref, rts, 0xf2, fh)
	}
	genBefore := zzsSnapshot(e.genDB, nil)

	req := EstimateSafeStatusRequest{TimeShutdown: shutdown}
	zzsEstimate = req
	w := &zzsWriter{}
	e.ep.HandleEstimateSafeStatus(w, router.NewEndpointRequest(context.Background(), nil, zzsParams(t, &req)))

	t.Assert(w.writes+w.errs == 1, "estimateSafeStatus answers with exactly one result or one error")
	t.Assert(bytes.Equal(zzsSnapshot(e.genDB, nil), genBefore) && !e.gen.IsGenerationEnabled(zzsAddrA), "estimateSafeStatus changes neither the stored info nor the enabled set")
	switch {
	case fts < shutdown:
		t.Assert(w.errs == 1, "no estimate is given while the finalized block is older than the shutdown")
		t.Reach("refused_not_finalized")
		return
	case shape == 0:
		t.Assert(w.errs == 1, "no estimate is given without the reference block")
		t.Reach("refused_no_reference")
		return
	}
	resp, ok := w.last.(*EstimateSafeStatusResponse)
	t.Assert(w.writes == 1 && ok, "with the shutdown finalized and the reference block present an estimate is given")
	if w.writes != 1 || !ok {
		return
	}
	s := resp.MaxHeightGenerated
	t.Assert(t.And(resp.Height == s, resp.MaxHeightPrevoted == s), "the estimate uses one height for height, maxHeightPrevoted and maxHeightGenerated")
	if shape == 3 {
		t.Assert(s >= fh, "the estimated maxHeightGenerated is never below the finalized height (the generator may have forged the finalized block itself)")
		t.Reach("estimated_young_chain")
		return
	}
	// (this bound implies s >= finalized height: the chain itself has finalized-ref blocks in those slots)
	t.Assert(uint64(s) >= uint64(ref)+(uint64(fts)-uint64(rts))/blockTime,
		"the estimated maxHeightGenerated is not below the height any fork sharing the reference block can have reached by the time of the finalized block")
	t.ObserveU64("estimate", uint64(s))
	t.Reach("estimated")
}
