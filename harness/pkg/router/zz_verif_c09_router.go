//go:build verif

package router

import "context"

// C09 "… or an RPC client": the JSON-RPC method / event name is the client's. Router.Invoke and Router.Subscribe on
// an arbitrary name — every string of length 0..5 over {a, b, _, c, d}, so names without the delimiter, with it first, last or several times are
// all among the inputs — return an error or a result; they never panic (over the websocket server the dispatch
// goroutine has no recover). A registered endpoint is reached exactly by namespace_method.
// (seed C09-10 cut the name at the first '_' with strings.Index and sliced by the -1 of "not found".)
//
//zz:opt loop=64 require=served,refused
func zzH_C09_rpc_router_names(t *zzT) {
	r := NewRouter()
	served := 0
	if err := r.RegisterEndpoint("ab", "cd", func(w EndpointResponseWriter, req *EndpointRequest) {
		served++
		w.Write(nil)
	}); err != nil {
		t.Fail("register")
	}
	// (strings.Split on a symbolic string is outside the engine's string model: the name is built from the
	// alphabet {a, b, _, c, d}, every string of length 0..5 over it — 3906 concrete names)
	const alphabet = "ab_cd"
	n := t.Range("name.len", 0, 5)
	nb := make([]byte, n)
	for i := range nb {
		nb[i] = alphabet[t.Choice(t.Name("name", i), len(alphabet))]
	}
	name := string(nb)
	res := r.Invoke(context.Background(), name, nil)
	if name == "ab_cd" {
		t.Assert(served == 1 && res.Err() == nil, "the registered endpoint is reached by namespace_method")
		t.Reach("served")
	} else {
		t.Assert(served == 0 && res.Err() != nil, "any other method name is answered with an error")
		t.Reach("refused")
	}
	ch := r.Subscribe(name)
	_ = ch
}
