//go:build verif

package crypto

// (white-box harness of unexported helpers: kept in its own file so that a refactor of the helpers drops only
// this file and not the entry-point harnesses)

// Bits.read/write agree with the little-endian bit layout for every in-range index.
//
//zz:opt loop=24
func zzH_C09_bits_rw(t *zzT) {
	bl := t.Range("len", 1, 3)
	b := Bits(t.Bytes("b", bl))
	i := t.Range("i", 0, bl*8-1)
	orig := b.read(i)
	t.Assert(orig == ((b[i/8]>>(uint(i)%8))&1 == 1), "read returns bit i")
	val := t.Bool("val")
	b.write(i, val)
	t.Assert(b.read(i) == val, "write then read returns the written bit")
	t.Reach("end")
}
