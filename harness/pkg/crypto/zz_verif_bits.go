//go:build verif

package crypto

// zzKeys: symbolically the key bytes are irrelevant (blst is stubbed); natively real keys are
// used so that the real blst calls are well-defined.
func zzKeys(t *zzT, n int) ([][]byte, []byte, []byte) {
	keys := make([][]byte, n)
	msg := []byte("zz-message")
	if t.Symbolic() {
		for i := range keys {
			keys[i] = []byte{byte(i)}
		}
		return keys, []byte{1}, msg
	}
	var sig []byte
	for i := range keys {
		pass := make([]byte, 32)
		pass[0] = byte(i + 1)
		kp := BLSKeyGen(pass)
		keys[i] = kp.PublicKey
		if i == 0 {
			sig = BLSSign(msg, kp.PrivateKey)
		}
	}
	return keys, sig, msg
}

// C09.c: aggregate-signature verification on an untrusted bitmap of arbitrary length never panics.
//
//zz:opt loop=24
//zz:quick K=9
//zz:thorough K=17
func zzH_C09_bitmap_verify(t *zzT) {
	n := t.Range("keys", 1, t.Param("K", 9))
	bl := t.Range("bitmap.len", 0, 3)
	bitmap := t.Bytes("bitmap", bl)
	keys, sig, msg := zzKeys(t, n)
	weights := make([]uint64, n)
	for i := range weights {
		weights[i] = 1
	}
	which := t.Choice("fn", 2)
	if which == 0 {
		BLSVerifyWeightedAggSig(keys, bitmap, sig, weights, t.U64("threshold"), msg)
	} else {
		BLSVerifyAggSig(keys, bitmap, sig, msg)
	}
	t.Reach("returned")
}

