#!/usr/bin/env python3
# Regenerates /verif/MANIFEST.json from the list of claimed properties below.
import json
props=[json.loads(l) for l in open('/verif/properties.jsonl')]
claimed = {
 'C01': "per-step premises of finality safety on the real liskbft code: quorum arithmetic of SetBFTParameters (accepted thresholds intersect in > 1/3, no wrap-around), and one vote step from an arbitrary symbolic window (prevote/precommit ranges, threshold rule, largestHeightPrecommit, monotone finalized height). The global theorem over unbounded fork trees is outside (proof-assistant claim).",
 'C02': "the per-block BFT step (insertBlockBFTInfo, updatePrevotesPrecommits, updateMaxHeight*) equals an independent LIP-0058 transcription from an arbitrary symbolic window; ImpliesMaximalPrevotes equals its definition; parameter lookup / next-change lookup / pruning over the store.",
 'C03': "one block-processing step on a really assembled node (real chain, BFT module, diffdb, codec; model DB; scripted application): a block obtained from a valid successor by one symbolic deviation (any header field, payload, signature, signer, slot, aggregate commit, application verdicts; pairs in the thorough tier) is appended only if no rule is violated, and a rejected block leaves database, tip and events unchanged.",
 'C04': "deleteBlock never removes a block at or below a fully symbolic finalized height and a refused delete changes nothing; an accepted block raises the stored finalized height to max(previous, precommitted) in the same batch with a finalization event iff raised; sync helper arithmetic is under C19.",
 'C05': "apply-then-delete of a valid block restores the exact database contents (all indexes, consensus store), cached tip and BFT heights apart from the finalized marker / temp copy; diffdb Commit/RevertDiff inverse and Diff codec (harnesses in pkg/db/diffdb).",
 'C10': "verifier side only: smt.Verify equals a LIP-0039 reference fold for one query of any shape (heights up to 4/7), soundness of an extra / second query next to an honest proof on a two-leaf tree, and the leaf semantics of updateNode (insert, overwrite, delete, no-op, split). Tree construction over symbolic keys, history independence and Prove completeness are NOT covered (256-way key binning forks; stated in DESIGN).",
 'C11': "per concrete list length n (up to 4-5 quick, 8-9 thorough) and symbolic leaf contents under the collision-free hash model: Append^n = CalculateRoot = LIP-0031 reference root, size and append path, predicted append, reload, generated proofs verify and tampered ones do not, update through a proof, right witness, index arithmetic.",
 'C12': "staged store (diffdb) over a model backing store: Get/Has/Range/Iterate through prefix views after up to 1-3 staged operations equal a sorted-map reference, snapshot/restore, commit/re-open, the pebble scan helpers against an iterator model (natively replayed on real pebble), upperBound, batchdb prefixing.",
 'C13': "reduction of crash atomicity to the trusted atomicity of pebble's Apply: on every explored path of processValidated / deleteBlock there is exactly one batch write for a committed step and none for a rejected one, no direct writes, application commit/revert before the write, and a restart on the resulting database finds a complete tip with its revert diff and consensus window. Crash points inside pebble are outside (trusted contract).",
 'C06': "aggregate-commit acceptance (height window incl. next parameter change, weights/threshold/bit positions, signed certificate = own block), self-consistency of the node's own Aggregate/GetAggregateCommit with its verification, GetAggregateCommit height choice, singleCommitValidator soundness, pool select/upgrade/cleanup, under an algebraic BLS model cross-checked against real blst on every replay.",
 'C07': "AreDistinctHeadersContradicting: symmetry, generator separation, equality with the LIP-0014 definition and with the semantic characterisation, all six 32-bit fields symbolic.",
 'C08': "varint round trips for all 64-bit values, canonical acceptance of readUint, strict canonical decoding of Transaction up to 13/16 bytes, and generated round-trip harnesses for every *_codec.go type (lengths by pattern, contents symbolic).",
 'C09': "every generated decoder on arbitrary buffers up to 3/5(6) bytes, every codec.Reader entry point, aggregation-bitmap readers: no panic, loops within unwinding bounds.",
 'C14': "transaction pool reached from the empty pool by up to 3 operations (Add/Remove/reorg, quick; 4 thorough) over 3 transactions of 2 senders with symbolic nonce/fee/verdicts: no operation blocks (lock discipline), index agreement, bounds, replacement rule, processable runs, concurrent reorg; sender-list reference; fee priority defined.",
 'C15': "transaction selection by fee (real selectTransactionsByFee with scripted application verdicts) equals a reference pick sequence, size limiting, nonce grouping; no two headers produced by up to 3 consecutive forges of one generator (through initBlockHeader and the persisted GeneratorInfo) contradict. forge()/sealBlock end to end (persistence order, self-acceptance) not covered.",
 'C16': "EventLogger snapshot/restore keeps exactly pre-snapshot and unrevertible events with consecutive indices; a failing command leaves the staged state and events as before the command while a succeeding one keeps its writes (scripted module, 2 stores, up to 2/3 operations); deleted keys reach the state trie as deletions; ABIHandler.Init recovers an application state that is ahead of the engine. Numeric state roots (trie construction) not covered.",
 'C17': "request/response layer with a fake host: a reply arriving during send is not lost; one request vs an asynchronous responder for all interleavings within the context-switch budget with the timer firing at any later moment: no deadlock, correct correlation, no leaked pending entry.",
 'C18': "connection-gater penalty arithmetic and gates, expiry sweep, rate limiter counters and interval reset, penalty/ban => disconnect, malformed envelope / unknown procedure => ban and disconnect, with fake libp2p host/stream and the real multiaddr code.",
 'C20': "lock discipline of the block cache (no re-acquisition of a held mutex); bulk lookups (headers by IDs/heights, transactions by IDs, blocks by range) return every existing item exactly once for all interleavings, with a vector-clock race monitor whose reports are confirmed by go test -race on the native replay. General data-race freedom of the whole node is outside.",
 'C19': "getBestNodeInfo over up to 3/4 symbolic peers for every map order and random pick; sync height-list helper arithmetic for all 32-bit inputs below 2^31.",
}
na_reasons = {}
checks=[]
for p in props:
    i=p['id']
    if i in claimed:
        checks.append({
            "property_id":i,
            "quick_cmd":f"bin/gosym run --prop {i} --tier quick",
            "thorough_cmd":f"bin/gosym run --prop {i} --tier thorough",
            "evidence_file":f"/verif/evidence/{i}.json",
            "replay_cmd_template":"bin/gosym replay {path}",
            "engine":"gosym",
            "level_claimed":{"category":"model_checking","text":"bounded symbolic model checking of the real Go SSA: every feasible path of the harnessed functions within the stated bounds is explored; each assertion is an SMT query (path condition and negated assertion) decided by z3 5.1.0 and cross-checked on z3 4.8.12 (and cvc5 in the thorough tier); counterexamples and one witness per reachability marker are replayed natively against the real build. Scope: "+claimed[i],"design_ref":"DESIGN.md section 5, "+i},
            "level_note":"bounded claim only (bounds per harness are written into the evidence file); environment stubs as listed in DESIGN.md section 3 and in evidence coverage.stubs_intrinsics; SHA-256 as collision-free uninterpreted function; solver answers trusted after cross-check",
            "technique":"solver-based bounded symbolic execution of go/ssa (own engine gosym) -> SMT-LIB2 QF_BV+UF, z3 5.1.0 resident, cross-checked z3 4.8.12/cvc5, native replay"
        })
m={"version":1,
 "setup_cmd":"cd /verif/engine && GOFLAGS=-mod=mod GOPROXY=off GOSUMDB=off GOTOOLCHAIN=local go build -o ../bin/gosym .",
 "hooks":{"guard":"verif","enable":"harness files (build tag verif) are injected by go/packages Overlay for symbolic execution and by `go test -tags verif -overlay` for native replay; /repo contains no hook code","baseline_off_cmd":json.load(open('/root/.vp/BASELINE.json'))['cmd'],"source_commits":[],"add_only":True},
 "engines":[{"name":"gosym","path":"/verif/engine","serves_properties":sorted(claimed),"kind_free_text":"Go SSA symbolic interpreter -> SMT-LIB2 (QF_BV+UF) -> resident z3; decision-replay DFS over 16 workers; native replay via go test -overlay"}],
 "checks":checks,
 "not_applicable":[{"property_id":p['id'],"reason":na_reasons.get(p['id'],"check not built yet in this round (planned obligations: DESIGN.md section 5)")} for p in props if p['id'] not in claimed],
 "notes":"see DESIGN.md; known_findings.jsonl lists fixed/known defects"}
json.dump(m,open('/verif/MANIFEST.json','w'),indent=1)
print("claimed",sorted(claimed))
