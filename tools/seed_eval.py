#!/usr/bin/env python3
"""Confirm a seeded change produced by a sub-agent and evaluate the checks against it.
usage: seed_eval.py <Cxx> [--props C01,C02] [--keep-worktree]
Reads /tmp/seed-<Cxx> (worktree with the change applied + demo) and /tmp/seed-<Cxx>-out.
Writes /verif/seeded/<Cxx>/{patch.diff,<demo>,notes.md,meta.json}."""
import json, os, subprocess, sys, shutil, re, glob, time
sid = sys.argv[1]              # seed id: "C01" (first batch) or "C01-2" (second batch)
cid = sid.split('-')[0]        # property id
batch = sid.split('-')[1] if '-' in sid else ''
props = [cid]
for i,a in enumerate(sys.argv):
    if a == '--props': props = sys.argv[i+1].split(',')
wt = f'/tmp/seed{batch}-{cid}'; out = f'/tmp/seed{batch}-{cid}-out'
env = dict(os.environ, GOFLAGS='-mod=mod', GOPROXY='off', GOSUMDB='off', GOTOOLCHAIN='local')
def run(cmd, cwd=None, timeout=3600):
    p = subprocess.run(cmd, shell=True, cwd=cwd, env=env, stdout=subprocess.PIPE, stderr=subprocess.STDOUT, text=True, errors='replace', timeout=timeout)
    return p.returncode, p.stdout
dst = f'/verif/seeded/{sid}'
os.makedirs(dst, exist_ok=True)
if not os.path.isdir(wt) and os.path.exists(f'{dst}/meta.json'):
    # re-check mode: the change was confirmed earlier; run the (strengthened) checks again
    meta = json.load(open(f'{dst}/meta.json'))
    res = {}
    # the change is applied to a scratch worktree of /repo (GOSYM_REPO), so /repo itself stays untouched
    # and other runs are not disturbed; equivalent to `git -C /repo apply` + `git -C /repo checkout -- .`
    swt = f'/tmp/seedwt-{sid}-{os.getpid()}'
    run(f"git -C /repo worktree add --detach {swt} HEAD")
    rc_a, oa = run(f"git -C {swt} apply {dst}/patch.diff")
    if rc_a != 0:
        print('apply failed', oa); run(f"git -C /repo worktree remove --force {swt}"); sys.exit(2)
    env['GOSYM_REPO'] = swt
    try:
        for p in props:
            t0 = time.time()
            rc_c, oc = run(f"./bin/gosym run --prop {p} --tier quick --no-evidence " + os.environ.get('SEED_GOSYM_ARGS',''), cwd='/verif', timeout=3600)
            viol = [l.strip() for l in oc.splitlines() if l.startswith('VIOLATION') or l.strip().startswith('harness=')]
            res[p] = {'exit': rc_c, 'wall_s': round(time.time()-t0,1), 'violations': viol[:12], 'tail': oc.splitlines()[-1] if oc else ''}
    finally:
        run(f"git -C /repo worktree remove --force {swt}")
    meta.setdefault('rechecks', []).append({'at': time.strftime('%Y-%m-%dT%H:%M:%SZ', time.gmtime()), 'checks': res})
    meta['detected_after_strengthening'] = any(r['exit'] == 1 for r in res.values())
    json.dump(meta, open(f'{dst}/meta.json','w'), indent=1)
    print('recheck', sid, {p: (r['exit'], r['violations'][:2]) for p, r in res.items()})
    sys.exit(0)
meta = {'property': cid, 'seed': sid, 'evaluated_at': time.strftime('%Y-%m-%dT%H:%M:%SZ', time.gmtime())}
# 1. locate change and demo
rc, changed = run("git diff --name-only", cwd=wt)
changed = [c for c in changed.split() if c and 'zz_seed_demo' not in c]
rc, untracked = run("git ls-files --others --exclude-standard", cwd=wt)
demos = [u for u in untracked.split() if 'zz_seed_demo' in u]
meta['changed_files'] = changed; meta['demo_files'] = demos
if not changed or not demos:
    print('no change or no demo found', changed, demos); sys.exit(2)
rc, patch = run("git diff -- " + ' '.join(changed), cwd=wt)
open(f'{dst}/patch.diff','w').write(patch)
for d in demos:
    shutil.copy(os.path.join(wt, d), os.path.join(dst, os.path.basename(d)))
if os.path.exists(f'{out}/notes.md'): shutil.copy(f'{out}/notes.md', f'{dst}/notes.md')
pkgs = sorted(set('./' + os.path.dirname(d) for d in demos))
tpkgs = sorted(set('./' + os.path.dirname(c) for c in changed) | set(pkgs))
# 2. confirm: build, demo fails with change, existing tests pass, demo passes without
rc_b, o = run("go build ./...", cwd=wt); meta['build_with_change'] = rc_b
rc_d1, o1 = run("go test -vet=off -count=1 -run 'Seed|seed|ZZSeed|Demo' " + ' '.join(pkgs), cwd=wt, timeout=1800)
meta['demo_with_change_exit'] = rc_d1
# existing tests with change (demo moved aside)
for d in demos: os.rename(os.path.join(wt,d), os.path.join(wt,d)+'.aside')
rc_t, ot = run("go test -vet=off -count=1 " + ' '.join(tpkgs), cwd=wt, timeout=3000)
known_fail = ['TestGenerateProof','TestVerifyProof','TestRemoveTreeFixture','TestGenerateProofJumboFixture']
fails = [l for l in ot.splitlines() if l.startswith('--- FAIL')]
unexpected = [l for l in fails if not any(k in l for k in known_fail)]
meta['existing_tests_with_change'] = {'exit': rc_t, 'unexpected_failures': unexpected}
for d in demos: os.rename(os.path.join(wt,d)+'.aside', os.path.join(wt,d))
open(f'{out}/_eval_patch.diff','w').write(patch)
run("git checkout -- " + ' '.join(changed), cwd=wt)
rc_d0, o0 = run("go test -vet=off -count=1 -run 'Seed|seed|ZZSeed|Demo' " + ' '.join(pkgs), cwd=wt, timeout=1800)
run(f"git apply {out}/_eval_patch.diff", cwd=wt)
meta['demo_without_change_exit'] = rc_d0
meta['confirmed'] = (rc_b == 0 and rc_d1 != 0 and rc_d0 == 0 and not unexpected)
meta['demo_fail_tail'] = o1[-600:]
# 3. run our checks against it
res = {}
if meta['confirmed']:
    swt = f'/tmp/seedwt-{sid}-{os.getpid()}'
    run(f"git -C /repo worktree add --detach {swt} HEAD")
    rc_a, oa = run(f"git -C {swt} apply {dst}/patch.diff")
    if rc_a != 0:
        meta['apply_error'] = oa
    else:
        env['GOSYM_REPO'] = swt
        try:
            for p in props:
                t0 = time.time()
                rc_c, oc = run(f"./bin/gosym run --prop {p} --tier quick --no-evidence " + os.environ.get('SEED_GOSYM_ARGS',''), cwd='/verif', timeout=3600)
                viol = [l.strip() for l in oc.splitlines() if l.startswith('VIOLATION') or l.strip().startswith('harness=')]
                res[p] = {'exit': rc_c, 'wall_s': round(time.time()-t0,1), 'violations': viol[:12], 'tail': oc.splitlines()[-1] if oc else ''}
        finally:
            pass
    run(f"git -C /repo worktree remove --force {swt}")
meta['checks'] = res
meta['detected'] = any(r['exit'] == 1 for r in res.values())
json.dump(meta, open(f'{dst}/meta.json','w'), indent=1)
print(json.dumps({k: meta[k] for k in ('confirmed','detected','changed_files')}, indent=1))
for p, r in res.items(): print(p, r['exit'], r['violations'][:4])
if '--keep-worktree' not in sys.argv and meta['confirmed']:
    run(f"git -C /repo worktree remove --force {wt}")
