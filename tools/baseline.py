#!/usr/bin/env python3
"""Run the pinned test suite of a tree (default /repo) and compare with the stable-pass list of
/root/.vp/BASELINE.json. usage: baseline.py [tree] [pkg patterns...]; exit 0 iff no stable test is missing/failing
(restricted to the packages run when patterns are given)."""
import json, os, subprocess, sys, ast
tree = sys.argv[1] if len(sys.argv) > 1 else '/repo'
pats = sys.argv[2:] or ['./...']
b = json.load(open('/root/.vp/BASELINE.json'))
stable = b['stable_pass']
if isinstance(stable, str): stable = ast.literal_eval(stable)
stable = set(stable)
env = dict(os.environ, GOFLAGS='-mod=mod', GOPROXY='off', GOSUMDB='off', GOTOOLCHAIN='local')
p = subprocess.run(['go','test','-json','-vet=off','-count=1','-timeout','25m']+pats, cwd=tree, env=env, stdout=subprocess.PIPE, stderr=subprocess.STDOUT, text=True, errors='replace')
passed, failed, pkgs = set(), set(), set()
for l in p.stdout.splitlines():
    try: e = json.loads(l)
    except Exception: continue
    if e.get('Package'): pkgs.add(e['Package'])
    if e.get('Test') and e.get('Action') in ('pass','fail'):
        (passed if e['Action']=='pass' else failed).add(f"{e['Package']}::{e['Test']}")
rel = {s for s in stable if s.split('::')[0] in pkgs}
missing = sorted(rel - passed)
print(f"packages={len(pkgs)} passed={len(passed)} failed={len(failed)} stable_in_scope={len(rel)} stable_missing={len(missing)}")
for m in missing: print('  MISSING', m, '(failed)' if m in failed else '(not run)')
for f in sorted(failed - stable):
    print('  failing-nonstable', f)
sys.exit(1 if missing else 0)
