#!/bin/bash
# runs the quick (or given) tier of every claimed property sequentially; logs under /tmp/runall
tier=${1:-quick}
mkdir -p /tmp/runall
cd /verif
for p in $(python3 -c "import json;print(' '.join(c['property_id'] for c in json.load(open('MANIFEST.json'))['checks']))"); do
  s=$(date +%s)
  ./bin/gosym run --prop $p --tier $tier > /tmp/runall/$p-$tier.log 2>&1
  e=$?
  echo "$p exit=$e $(( $(date +%s) - s ))s $(tail -1 /tmp/runall/$p-$tier.log)"
done
