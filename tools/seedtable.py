#!/usr/bin/env python3
# regenerates the seeded-change table of DESIGN.md §0.6 from seeded/*/meta.json
import json, glob, os, re
rows=[]
for d in sorted(glob.glob('/verif/seeded/*/meta.json')):
    m=json.load(open(d)); cid=os.path.basename(os.path.dirname(d))
    note={}
    np=os.path.join(os.path.dirname(d),'summary.txt')
    summ=open(np).read().strip() if os.path.exists(np) else ''
    first=m.get('checks',{})
    first_det=[p for p,r in first.items() if r['exit']==1]
    spurious = m.get('first_run_spurious', False)
    later=[]
    for rc in m.get('rechecks',[]):
        for p,r in rc['checks'].items():
            if r['exit']==1:
                lab=[v for v in r['violations'] if v.startswith('harness=')]
                later.append((p, lab[0].split(' label=')[0].replace('harness=','') if lab else ''))
    firsttxt='caught by '+', '.join(first_det) if first_det and not spurious else 'MISSED'
    if first_det and not spurious:
        labs=[v for p in first_det for v in first[p]['violations'] if v.startswith('harness=')]
        if labs: firsttxt+=' ('+labs[0].split(' label=')[0].replace('harness=','')+')'
    latertxt=''
    if later:
        latertxt='caught by '+', '.join(sorted(set(f"{p} ({h})" for p,h in later)))
    rows.append(f"| {cid} | {', '.join(m.get('changed_files',[]))} | {summ} | {firsttxt} | {latertxt or '—'} |")
tbl="| Seed | Changed | What it needs to manifest | First run | After strengthening |\n|---|---|---|---|---|\n"+"\n".join(rows)
s=open('/verif/DESIGN.md').read()
if '<!-- SEEDTABLE:BEGIN -->' in s:
    s=re.sub(r'<!-- SEEDTABLE:BEGIN -->.*?<!-- SEEDTABLE:END -->', '<!-- SEEDTABLE:BEGIN -->\n'+tbl+'\n<!-- SEEDTABLE:END -->', s, flags=re.S)
else:
    s=s.replace('SEEDTABLE','<!-- SEEDTABLE:BEGIN -->\n'+tbl+'\n<!-- SEEDTABLE:END -->',1)
open('/verif/DESIGN.md','w').write(s)
print(tbl)
